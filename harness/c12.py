"""C12 — HashClient single-key and multi-key operations agree on where a key lives.
Real `HashClient` (plain and pooled) over several reference memcached servers behind one fake socket module; the
per-server command logs say which server saw which key.  Monitor: every operation on a key reaches exactly the server the
published rendezvous rule assigns to its routing key, multi-key operations send each key there exactly once, get_many
equals per-key gets, written keys are found.  Correspondence: the Lean `HashRoute.batchesOf` grouping."""
from common import Ctx, hx, import_repo
from clientlib import key_tok
from faultrun import Scripted


def cps(s):
    return ",".join(str(ord(c)) for c in s) or "-"


def node_name(spec):
    return "%s:%s" % spec if isinstance(spec, tuple) else spec


def wire(k, pfx):
    return pfx + (k.encode() if isinstance(k, str) else k)


def server_logs(S):
    """{node name: [parsed commands]}"""
    out = {}
    for key, srv in S.srvs.items():
        addr = eval(key)
        out[node_name(addr) if not isinstance(addr, str) else addr] = srv
    return out


def keys_seen(cmd):
    if cmd[0] == "store":
        return [cmd[2]]
    if cmd[0] == "fetch":
        return list(cmd[3])
    if cmd[0] in ("delete", "touch"):
        return [cmd[1]]
    if cmd[0] == "arith":
        return [cmd[2]]
    return []


def main(argv):
    ctx = Ctx("C12", argv)
    ctx.prepare_lean()
    import_repo()
    from pymemcache.client.hash import HashClient
    from pymemcache.client.murmur3 import murmur3_32 as _impl_murmur
    HASHED = {}

    def murmur3_32(text, seed=0):
        """the implementation's hash, remembered: every string the placement rule was evaluated on is compared with the Lean model of MurmurHash3 at the end"""
        v = _impl_murmur(text, seed)
        HASHED[text] = v
        return v
    rng = ctx.rng
    ctx.rule = ("server sets of 1..5 servers (TCP tuples/strings and UNIX paths) x key sets of size 0..50 (str, bytes, (server_key, key) pairs) x prefixes x use_pooling "
                "x every key-addressed operation; non-trivial = distinct (servers, prefix, pooling, key set)")
    server_sets = [[("h1", 11211)], [("h1", 11211), ("h2", 11211)], [("a", 1), ("b", 2), ("c", 3)], ["10.0.0.1:11211", ("10.0.0.2", 11212), "/tmp/mc.sock"],
                   [("n%d" % i, 11211) for i in range(5)], ["/tmp/a.sock", "/tmp/b.sock"]]
    lines, metas = [], []
    ncase = 0
    for servers in server_sets:
        for pfx in (b"", b"app:"):
            for pooling in (False, True):
                for rep in range(30 if ctx.thorough else 6):
                    S = Scripted(rng)
                    au = rep % 2 == 0          # text keys outside ASCII are legal with allow_unicode_keys: routed by the text as given
                    if rep % 3 == 2 and len(servers) > 1:
                        # the same server set reached by growing the client: built with the first server only, the others added one by one
                        hc = HashClient(servers[:1], socket_module=S.sm, key_prefix=pfx, use_pooling=pooling, default_noreply=False, retry_attempts=0, dead_timeout=0, allow_unicode_keys=au)
                        for j_, extra_ in enumerate(servers[1:]):
                            if isinstance(extra_, tuple) and (rep + j_) % 2 == 0:
                                hc.add_server(extra_[0], extra_[1])          # the two-argument spelling of the same server
                            else:
                                hc.add_server(extra_)
                        want_names_ = sorted(HashClient(servers, socket_module=S.sm).clients.keys())
                        if sorted(hc.clients.keys()) != want_names_ or sorted(hc.hasher.nodes) != want_names_:
                            ctx.violation("a client grown server by server (also through add_server(host, port)) does not hold the server set of one built with the whole list",
                                          {"servers": servers, "clients": sorted(hc.clients.keys()), "rotation": sorted(hc.hasher.nodes), "built_at_once": want_names_}, tags=["grown"])
                    else:
                        hc = HashClient(servers, socket_module=S.sm, key_prefix=pfx, use_pooling=pooling, default_noreply=False, retry_attempts=0, dead_timeout=0, allow_unicode_keys=au)
                    if rep % 3 == 1:
                        # an attempt to add a server that cannot be built (a malformed address: whatever this tree refuses) fails and leaves the server set as it was
                        for bad_spec in ("10.0.0.9:", "cache.example:port", ["h:", "h9:11x"][(rep // 3) % 2]):
                            try:
                                HashClient([], socket_module=S.sm).add_server(bad_spec)
                                continue            # this tree accepts the spelling: not a failing add
                            except Exception:
                                pass
                            try:
                                hc.add_server(bad_spec)
                            except Exception:
                                pass
                    names = sorted(hc.clients.keys())
                    S.begin_call(0, {})
                    try:
                        hc.get(("", "probe"))
                        empty_route_ok = True
                    except Exception:
                        empty_route_ok = False      # a tree that rejects the empty routing key: no claim about such pairs
                    n = [0, 1, 2, 7, 20, 50][rep % 6]        # every size for every configuration
                    keys = []
                    for i in range(n):
                        t = rng.randrange(4)
                        if t == 0:
                            keys.append("key%d" % i)
                        elif t == 1:
                            keys.append(b"bk%d" % i)
                        elif t == 2:
                            keys.append(("route%d" % rng.randrange(5), "pk%d" % i))
                        else:
                            keys.append("k-%d-%d" % (rep, i))
                    if n >= 2:
                        # short plain keys: a two-character key is a key, not a (server_key, key) pair
                        keys += ["ab", b"cd", "x" + "abcdefgh"[rep % 8], b"q", "zz%d" % (rep % 10)][: 2 + rep % 4]
                    if n >= 2 and au:
                        # Cyrillic / CJK / astral text, and text with two Unicode spellings (composed and decomposed): each is its own key and its own routing key
                        keys += ["\u043a\u043b\u044e\u0447%d" % rep, "\u952e%d" % rep, "caf\u00e9%d" % rep, "cafe\u0301%d" % rep, ("r\u00e9gion\u4e2d%d" % (rep % 3), "pk\u00e9%d" % rep),
                                 ("re\u0301gion", "A\u030a%d" % rep), "\U0001f600k%d" % rep, "\u212b%d" % rep][: 4 + rep % 5]
                    if n >= 2 and empty_route_ok and rep % 2 == 0:
                        # pairs whose explicit server key is empty: they all live on one server, whatever their inner keys are
                        keys += [("", "ea%d" % rep), ("", "eb%d" % rep), ("", "ec"), ("", "key0x")]
                    if n >= 2 and len(names) >= 2 and rep % 2 == 1:
                        # one text as a str key and as a bytes key in ONE call: two different routing keys (the rule hashes what the caller passed),
                        # chosen so that they live on different servers - the same memcached key on each of them
                        def srv_of(r_):
                            return max(names, key=lambda nn: (murmur3_32(f"{nn}-{r_}", 0), nn))
                        for tw in range(40):
                            t_ = "twin%d_%d" % (rep, tw)
                            if srv_of(t_) != srv_of(t_.encode()):
                                keys += [t_, t_.encode()]
                                break
                    if n >= 2 and rng.random() < .7:
                        # the same inner key under several routings, and also as a plain key
                        base_k = "shared%d" % rep
                        keys += [("routeA", base_k), ("routeB", base_k), base_k, ("routeC%d" % rep, base_k)]
                        rng.shuffle(keys)
                    ncase += 1
                    ctx.case((repr(servers), pfx, pooling, repr(keys)), nontrivial=len(keys) > 0,
                             sample={"servers": servers, "prefix": hx(pfx), "pooling": pooling, "keys": repr(keys)[:100]} if ncase in (7, 30) else None)
                    ctx.count(f"servers={len(servers)}")

                    def routing(k):
                        return k[0] if isinstance(k, tuple) else k

                    def inner(k):
                        return k[1] if isinstance(k, tuple) else k

                    def expected_server(k):
                        r = routing(k)
                        return max(names, key=lambda nn: (murmur3_32(f"{nn}-{r}", 0), nn))
                    case0 = {"servers": servers, "prefix": hx(pfx), "pooling": pooling}
                    logs = server_logs(S)

                    def seen_by():
                        """{wire key: [server names that saw it since the last reset]}"""
                        logs = server_logs(S)
                        m = {}
                        for name, srv in logs.items():
                            for cmd in srv.cmds:
                                for wk in keys_seen(cmd):
                                    m.setdefault(wk, []).append(name)
                        return m

                    def reset():
                        for srv in S.srvs.values():
                            del srv.cmds[:]
                    # set_many, then every single-key op must find the key on the same server
                    values = {k: b"v%d" % i for i, k in enumerate(keys)}
                    reset()
                    try:
                        failed = hc.set_many(values) if values else []
                    except Exception as e:
                        ctx.violation("set_many raised on healthy servers with legal keys", dict(case0, keys=repr(keys)[:100], error=repr(e)[:100]), tags=["op:set_many"])
                        continue
                    observed = sorted((name, wk) for name, srv in server_logs(S).items() for cmd in srv.cmds for wk in keys_seen(cmd))
                    expected = sorted({(expected_server(k), wire(inner(k), pfx)) for k in keys})
                    if observed != expected:
                        ctx.violation("set_many did not send each key exactly once to the server placement assigns to it (and to no other)",
                                      dict(case0, keys=repr(keys)[:120], observed=[(a, hx(b)) for a, b in observed][:12], expected=[(a, hx(b)) for a, b in expected][:12]), tags=["op:set_many"])
                        continue
                    if failed:
                        ctx.violation("set_many reported failed keys on healthy servers", dict(case0, failed=repr(failed)[:80]))
                    for op in ("get", "gets", "touch", "incr_like_append", "delete_then_set"):
                        for k in keys[:12]:
                            reset()
                            wk = wire(inner(k), pfx)
                            try:
                                if op == "get":
                                    hc.get(k)
                            except Exception as e:
                                ctx.violation(f"{op} raised on healthy servers with a legal key", dict(case0, key=repr(k), error=repr(e)[:100]), tags=["op:" + op])
                                break
                            reset()
                            try:
                                if op == "get":
                                    r = hc.get(k)
                                    ok = r == values[k] or any(inner(kk) == inner(k) and kk != k for kk in keys)
                                elif op == "gets":
                                    r = hc.gets(k)
                                    ok = isinstance(r, tuple) and (r[0] == values[k] or any(inner(kk) == inner(k) and kk != k for kk in keys))
                                elif op == "touch":
                                    ok = hc.touch(k, 100, noreply=False) is True
                                elif op == "incr_like_append":
                                    ok = hc.append(k, b"", noreply=False) is True
                                else:
                                    ok = hc.delete(k, noreply=False) is True and hc.set(k, values[k], noreply=False) is True
                            except Exception as e:
                                ctx.violation(f"{op} raised on healthy servers with a legal key", dict(case0, key=repr(k), error=repr(e)[:100]), tags=["op:" + op])
                                break
                            m = seen_by()
                            want = expected_server(k)
                            if set(m.get(wk, [])) != {want} or any(other for other in m if other != wk):
                                ctx.violation(f"{op} on a key did not go to (only) the server placement assigns to it", dict(case0, key=repr(k), saw=m, want=want), tags=["op:" + op])
                                break
                            if not ok:
                                ctx.violation(f"a key written by set_many was not found by {op}", dict(case0, key=repr(k), result=repr(r)[:60] if op in ("get", "gets") else None), tags=["op:" + op])
                                break
                    # get_many: each key exactly once at its server; equals per-key gets
                    distinct_inner = len({inner(k) if isinstance(inner(k), bytes) else inner(k).encode() for k in keys}) == len(keys)
                    reset()
                    try:
                        # the keys handed over as a list, or (every other case) as a one-shot iterator / generator: the same keys
                        gm = hc.get_many([keys, iter(keys), (k_ for k_ in keys)][rep % 3] if rep % 3 else keys) if keys else {}
                    except Exception as e:
                        ctx.violation("get_many raised on healthy servers with legal keys", dict(case0, keys=repr(keys)[:100], error=repr(e)[:100]), tags=["op:get_many"])
                        continue
                    m = seen_by()
                    per_server = {}
                    for name, srv in server_logs(S).items():
                        ks_here = [wk for cmd in srv.cmds for wk in keys_seen(cmd)]
                        if ks_here:
                            per_server[name] = ks_here
                    observed = sorted((name, wk) for name, ks_here in per_server.items() for wk in ks_here)
                    expected = sorted((expected_server(k), wire(inner(k), pfx)) for k in keys)
                    if observed != expected:
                        ctx.violation("get_many did not send each key exactly once to its server (and to no other)",
                                      dict(case0, keys=repr(keys)[:120], observed=[(a, hx(b)) for a, b in observed][:12], expected=[(a, hx(b)) for a, b in expected][:12]), tags=["op:get_many"])
                        continue
                    if distinct_inner:
                        singles = {}
                        try:
                            for k in keys:
                                v = hc.get(k)
                                if v is not None:
                                    singles[inner(k)] = v
                        except Exception as e:
                            ctx.violation("get raised on healthy servers with a legal key", dict(case0, error=repr(e)[:100]), tags=["op:get"])
                            continue
                        if gm != singles:
                            ctx.violation("get_many differs from the per-key gets", dict(case0, get_many=repr(gm)[:120], gets=repr(singles)[:120]), tags=["op:get_many"])
                    # gets_many: the same routing, `gets` on the wire for every key set size (1 included), and it equals the per-key gets
                    reset()
                    try:
                        gsm = hc.gets_many(map(lambda k_: k_, keys) if rep % 2 else keys) if keys else {}
                    except Exception as e:
                        ctx.violation("gets_many raised on healthy servers with legal keys", dict(case0, keys=repr(keys)[:100], error=repr(e)[:100]), tags=["op:gets_many"])
                        continue
                    seen_cmds = [(name, cmd[1], wk) for name, srv in server_logs(S).items() for cmd in srv.cmds if cmd[0] == "fetch" for wk in keys_seen(cmd)]
                    obs_g = sorted((name, wk) for name, _, wk in seen_cmds)
                    if obs_g != expected or any(verb != b"gets" for _, verb, _ in seen_cmds):
                        ctx.violation("gets_many did not send `gets` for each key exactly once to its server (and to no other)",
                                      dict(case0, keys=repr(keys)[:120], verbs=sorted({v_.decode() for _, v_, _ in seen_cmds}), observed=[(a, hx(b)) for a, b in obs_g][:8]), tags=["op:gets_many"])
                        continue
                    if distinct_inner:
                        singles_g = {}
                        try:
                            for k in keys:
                                vg = hc.gets(k)
                                if vg is not None and vg != (None, None):
                                    singles_g[inner(k)] = vg
                        except Exception as e:
                            ctx.violation("gets raised on healthy servers with a legal key", dict(case0, error=repr(e)[:100]), tags=["op:gets"])
                            continue
                        if gsm != singles_g:
                            ctx.violation("gets_many differs from the per-key gets", dict(case0, gets_many=repr(gsm)[:120], gets=repr(singles_g)[:120]), tags=["op:gets_many"])
                    # Lean: the grouping
                    if keys and all(isinstance(routing(k), str) for k in keys):
                        ktoks = "|".join(f"{cps(routing(k))}~{key_tok(inner(k))}" for k in keys if isinstance(routing(k), str))
                        lines.append(f"batches seed=0 nodes={';'.join(cps(nn) for nn in hc.hasher.nodes)} keys={ktoks}")
                        want = {}
                        for k in keys:
                            want.setdefault(expected_server(k), []).append(inner(k))
                        real = {name: ks_here for name, ks_here in per_server.items()}
                        metas.append((dict(case0, keys=repr(keys)[:100]), real, pfx))
    # ---- every batch size: with one server all keys of a call form one batch, with two servers the batches take every pair of sizes - whatever the
    #      size of a server's batch, each of its keys is asked for exactly once and comes back (sizes 1..130; boundaries such as 32/33/64/65 included) ----
    for servers in (server_sets[0], server_sets[1]):
        for pooling in (False, True):
            S = Scripted(rng)
            hc = HashClient(servers, socket_module=S.sm, use_pooling=pooling, default_noreply=False, retry_attempts=0, dead_timeout=0)
            S.begin_call(0, {})
            allk = ["sz%03d" % i for i in range(131)]
            hc.set_many({k_: b"v" + k_.encode() for k_ in allk}, noreply=False)
            for n_ in range(1, 131):
                if pooling and n_ % 3:
                    continue
                ks = allk[:n_]
                for srv in S.srvs.values():
                    del srv.cmds[:]
                ctx.case(("batch-size", repr(servers), pooling, n_))
                ctx.count("batch-size sweep")
                case0 = {"servers": servers, "pooling": pooling, "number_of_keys": n_}
                try:
                    gm = hc.get_many(ks)
                    asked = sorted(wk for srv in S.srvs.values() for cmd in srv.cmds for wk in keys_seen(cmd))
                    gsm = hc.gets_many(ks)
                except Exception as e:
                    ctx.violation("get_many / gets_many raised on healthy servers", dict(case0, error=repr(e)[:100]), tags=["op:get_many", "batch-size"])
                    break
                if asked != sorted(k_.encode() for k_ in ks) or gm != {k_: b"v" + k_.encode() for k_ in ks} or set(gsm) != set(ks):
                    missing = sorted(set(ks) - set(gm))[:5]
                    ctx.violation("get_many did not send each key exactly once to its server (and to no other)", dict(case0, keys_not_returned=missing, keys_asked=len(asked)),
                                  tags=["op:get_many", "batch-size"])
                    break
    # ---- a server set that CHANGES through failover: a server is taken out after a failure and comes back after dead_timeout; whichever operation
    #      happens to be the first one after that - single-key or multi-key - all operations agree on where a key lives: what set_many wrote is
    #      found by get / gets / get_many, what set wrote is found by get_many --------------------------------------------------------------------
    import pymemcache.client.hash as hash_mod_
    from common import FakeClock
    fclock = [1000.0]
    real_time_ = hash_mod_.time
    hash_mod_.time = FakeClock(lambda: fclock[0])
    try:
        for servers in ([("h1", 11211), ("h2", 11211)], [("a", 1), ("b", 2), ("c", 3)], ["/tmp/a.sock", ("h2", 11211)]):
            for pooling in (False, True):
                for first_after in ("set_many", "get_many", "set", "get", "delete_many"):
                    for down_i in range(len(servers)):
                        S = Scripted(rng)
                        hc = HashClient(servers, socket_module=S.sm, use_pooling=pooling, default_noreply=False, retry_attempts=0, retry_timeout=1, dead_timeout=30)
                        S.begin_call(0, {})
                        ks = ["fk%d" % i for i in range(24)]
                        down = servers[down_i]
                        case0 = {"servers": servers, "pooling": pooling, "server_that_failed": repr(down), "first_operation_after_it_came_back": first_after}
                        ctx.case(("failover-agreement", repr(servers), pooling, first_after, down_i))
                        ctx.count("failover-agreement-histories")
                        S.world.refuse_addrs = {down if isinstance(down, tuple) else down}
                        for k in ks:                       # some of these fail and take the server out
                            try:
                                hc.get(k)
                            except Exception:
                                pass
                        S.world.refuse_addrs = set()
                        fclock[0] += 100                   # well beyond dead_timeout: the next routed operation brings it back
                        vals = {k: b"v-" + k.encode() for k in ks}
                        try:
                            if first_after == "set_many":
                                hc.set_many(vals, noreply=False)
                            elif first_after == "get_many":
                                hc.get_many(ks)
                                hc.set_many(vals, noreply=False)
                            elif first_after == "set":
                                for k in ks:
                                    hc.set(k, vals[k], noreply=False)
                            elif first_after == "get":
                                hc.get(ks[0])
                                hc.set_many(vals, noreply=False)
                            else:
                                hc.delete_many(ks, noreply=False)
                                hc.set_many(vals, noreply=False)
                            singles = {k: hc.get(k) for k in ks}
                            many = hc.get_many(ks)
                            cas_ = {k: hc.gets(k)[0] for k in ks}
                        except Exception as e:
                            ctx.violation("an operation raised on healthy servers after a server came back", dict(case0, error=repr(e)[:100]), tags=["failover-agreement"])
                            continue
                        lost = sorted(k for k in ks if singles[k] != vals[k] or many.get(k) != vals[k] or cas_[k] != vals[k])
                        if lost:
                            ctx.violation("after a server went out and came back, what was written is not found by get / gets / get_many on the same key",
                                          dict(case0, keys_not_found=lost[:8], rotation=sorted(map(str, hc.hasher.nodes))), tags=["failover-agreement"])
    finally:
        hash_mod_.time = real_time_
    # ---- merging the answers: set_many reports exactly the keys that were not stored, whichever server they live on; node names are the
    #      published canonical spellings whatever way the server was written (host without port, unix:, IPv6 brackets)
    spelled = [["h1", "h2:11212", ("h3", 11213)], ["unix:/tmp/x.sock", "h1:1", "/tmp/y.sock"], ["[::1]:11211", "[fe80::2]", ("10.0.0.9", 11211)],
               [("n%d" % i, 11211) for i in range(5)], [("solo", 1)]]
    from pymemcache.client.base import normalize_server_spec
    for servers in spelled:
        for pooling in (False, True):
            for pfx in (b"", b"p:"):
                for rep in range(8 if ctx.thorough else 3):
                    S = Scripted(rng)
                    S.begin_call(0, {})
                    try:
                        hc = HashClient(servers, socket_module=S.sm, use_pooling=pooling, default_noreply=False, key_prefix=pfx, retry_attempts=0, dead_timeout=0)
                    except Exception as e:
                        ctx.violation("HashClient could not be built from documented server spellings", {"servers": servers, "error": repr(e)[:100]}, tags=["spelling"])
                        continue
                    norm = [normalize_server_spec(sp) for sp in servers]
                    names = [node_name(a) for a in norm]
                    keys = ["mk%d-%d" % (rep, i) for i in range(rng.choice([3, 12, 40]))]
                    refused = set(rng.sample(keys, rng.choice([0, 1, len(keys) // 2, len(keys)])))

                    def home(k):
                        return max(names, key=lambda nn: (murmur3_32(f"{nn}-{k}", 0), nn))
                    ctx.case(("merge", repr(servers), pooling, pfx, rep), nontrivial=True)
                    ctx.count("merge-answers")
                    case0 = {"servers": servers, "pooling": pooling, "prefix": hx(pfx), "keys": len(keys), "refused": len(refused)}
                    if sorted(map(str, hc.hasher.nodes)) != sorted(names):
                        ctx.violation("servers are not entered into rotation under their canonical node names", dict(case0, rotation=sorted(map(str, hc.hasher.nodes)), want=sorted(names)),
                                      tags=["spelling"])
                        continue
                    # make every server exist, then switch the refusals on
                    try:
                        hc.get_many(keys)
                    except Exception as e:
                        ctx.violation("get_many raised on healthy servers with legal keys", dict(case0, error=repr(e)[:100]), tags=["op:get_many", "merge"])
                        continue
                    for srv in S.srvs.values():
                        srv.refuse_keys = {wire(k, pfx) for k in refused}
                        del srv.cmds[:]
                    try:
                        failed = hc.set_many({k: b"v" for k in keys}, noreply=False)
                    except Exception as e:
                        ctx.violation("set_many raised on healthy servers", dict(case0, error=repr(e)[:100]), tags=["op:set_many", "merge"])
                        continue
                    observed = sorted((name, wk) for name, srv in server_logs(S).items() for cmd in srv.cmds for wk in keys_seen(cmd))
                    expected = sorted((home(k), wire(k, pfx)) for k in keys)
                    if observed != expected:
                        ctx.violation("set_many did not send each key exactly once to the server placement assigns to it (and to no other)",
                                      dict(case0, observed=[(a_, hx(b_)) for a_, b_ in observed][:8], expected=[(a_, hx(b_)) for a_, b_ in expected][:8]), tags=["op:set_many", "spelling"])
                        continue
                    try:
                        singles = sorted(k for k in keys if hc.set(k, b"v", noreply=False) is not True)
                    except Exception as e:
                        ctx.violation("set raised on healthy servers with a legal key", dict(case0, error=repr(e)[:100]), tags=["op:set", "merge"])
                        continue
                    if sorted(failed) != sorted(refused) or singles != sorted(refused):
                        ctx.violation("set_many does not report exactly the keys that were not stored (= the keys for which a single set reports failure)",
                                      dict(case0, failed=sorted(map(str, failed))[:10], n_failed=len(failed), want=sorted(refused)[:10], n_want=len(refused), per_key_set_failures=len(singles)),
                                      tags=["op:set_many", "merge"])
                        continue
                    try:
                        gm = hc.get_many(keys)
                    except Exception as e:
                        gm = repr(e)
                    if gm != {k: b"v" for k in keys if k not in refused}:
                        ctx.violation("get_many does not return exactly what was stored", dict(case0, got=len(gm)), tags=["op:get_many", "merge"])
    if ctx.lean.build_ok:
        for (case, real, pfx), o in zip(metas, ctx.driver.batch(lines)):
            model = {}
            if o.startswith("ok ") and len(o) > 3:
                for part in o[3:].split(";"):
                    srv, ks = part.rsplit(":", 1) if False else (part.split(":", 1))
                    name = "".join(chr(int(c)) for c in srv.split(","))
                    toks = ks.split("|")
                    model[name] = toks
            # compare as {server: [wire keys in order]}
            def tok_to_wire(t):
                if t.startswith("b:"):
                    return pfx + (bytes.fromhex(t[2:]) if t[2:] != "-" else b"")
                cpsl = t[2:]
                return pfx + ("".join(chr(int(c)) for c in cpsl.split(",")) if cpsl != "-" else "").encode()
            model_w = {k: [tok_to_wire(t) for t in v] for k, v in model.items()}
            if model_w != real:
                ctx.disagreement("Lean batching model differs from the per-server command logs of get_many", dict(case, impl={k: [hx(x) for x in v] for k, v in real.items()},
                                                                                                            model={k: [hx(x) for x in v] for k, v in model_w.items()}),
                                 theorem="C12_batches_partition_keys")
    # the hash the expectation was computed with, against the Lean model of MurmurHash3 (C14_murmurPy_eq_ref) on every string it was applied to
    if ctx.driver.available and ctx.lean.build_ok and HASHED:
        items_ = sorted(HASHED.items())
        outs_ = ctx.driver.batch(["murmur 0 " + " ".join(str(ord(ch_)) for ch_ in t_) for t_, _ in items_])
        ctx.count("routing strings whose hash was compared with the Lean model", len(items_))
        for (t_, v_), o_ in zip(items_, outs_):
            if o_ != f"ok {v_}":
                ctx.violation("the score the placement rule is computed from differs from MurmurHash3 of '<node>-<key>' (Lean model) for a routing string",
                              {"string": repr(t_), "implementation": v_, "model": o_}, tags=["hash"])
                break
    ctx.assumptions = ["servers are faithful memcached instances (C05)", "placement rule is C11's; here it is recomputed independently with murmur3_32 (C14)"]
    ctx.finish()
