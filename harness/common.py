"""Shared plumbing for every property check: repo import, Lean build + axiom audit, the Lean model
driver (line protocol), evidence, replays, known findings, the decision procedure of DESIGN.md §4."""
import hashlib
import json
import os
import random
import re
import subprocess
import sys
import time

VERIF = os.path.dirname(os.path.dirname(os.path.abspath(__file__)))
REPO = os.environ.get("VERIF_REPO", "/repo")
LEAN = os.path.join(VERIF, "lean")
DRIVER = os.path.join(LEAN, ".lake", "build", "bin", "pymc-driver")
ALLOWED_AXIOMS = {"propext", "Classical.choice", "Quot.sound"}
FORBIDDEN = re.compile(r"\b(sorry|admit|native_decide|bv_decide|implemented_by)\b|^\s*axiom\s|\bunsafe\s|maxHeartbeats\s+0\b")

TRUSTED_BASE = [
    "Lean 4.33.0 kernel; axioms allowed in property theorems: propext, Classical.choice, Quot.sound (audited by Audit.lean on every run)",
    "hand-written Lean models in lean/Pymc/Model tied to /repo by this correspondence harness (differential, not exhaustive unless stated)",
    "CPython 3.12 (/venv/bin/python) as reference semantics of the builtins used by pymemcache",
    "harness seams: fake socket module, scripted client_class, patched time/sleep, recording lock",
]


class SourceCoverage:
    """Which lines of the library does this run of the correspondence actually execute?  The tie between model and code is differential
    testing: it sees only the code its cases reach.  Every check therefore measures, with `sys.monitoring` LINE events (each location
    reports once and is then switched off, so the cost is negligible), the executed lines of `pymemcache/**.py` (tests excluded) and writes
    per-file counts and the unexecuted line ranges into its evidence (`coverage.library_lines_executed`).  Purely a measurement: it never
    affects a verdict, and any failure to set it up is recorded and ignored."""

    def __init__(self):
        self.hit = set()
        self.on = False
        self.note = None
        self._real = {}

    def start(self):
        if self.on or os.environ.get("VERIF_NO_LINECOV"):
            return
        try:
            mon = sys.monitoring
            mon.use_tool_id(mon.COVERAGE_ID, "verif-tie-coverage")
            root = os.path.join(os.path.realpath(REPO), "pymemcache") + os.sep

            def on_line(code, lineno, _hit=self.hit, _real=self._real, _root=root, _dis=mon.DISABLE):
                fn = code.co_filename
                r = _real.get(fn)
                if r is None:
                    r = _real[fn] = os.path.realpath(fn) if fn and fn[0] != "<" else fn
                if r.startswith(_root):
                    _hit.add((r, lineno))
                return _dis
            mon.register_callback(mon.COVERAGE_ID, mon.events.LINE, on_line)
            mon.set_events(mon.COVERAGE_ID, mon.events.LINE)
            self.on = True
        except Exception as e:      # e.g. the tool id is taken: no measurement, no effect on the check
            self.note = "not measured: " + repr(e)[:120]

    @staticmethod
    def _executable_lines(path):
        lines = set()
        try:
            top = compile(open(path, encoding="utf-8").read(), path, "exec")
        except Exception:
            return lines
        todo = [top]
        while todo:
            c = todo.pop()
            for _, _, ln in c.co_lines():
                if ln is not None and ln > 0:
                    lines.add(ln)
            todo += [k for k in c.co_consts if hasattr(k, "co_lines")]
        return lines

    def report(self):
        if not self.on:
            return {"note": self.note or "not measured"}
        root = os.path.join(os.path.realpath(REPO), "pymemcache")
        out = {}
        for d, _, files in os.walk(root):
            if os.sep + "test" in d[len(root):]:
                continue
            for fn in sorted(files):
                if not fn.endswith(".py"):
                    continue
                p = os.path.join(d, fn)
                ex = self._executable_lines(p)
                if not ex:
                    continue
                hit = {ln for (f, ln) in self.hit if f == p} & ex
                if not hit:
                    continue            # a module this check never imports
                miss = sorted(ex - hit)
                ranges, i = [], 0
                while i < len(miss):
                    j = i
                    while j + 1 < len(miss) and miss[j + 1] - miss[j] <= 2:
                        j += 1
                    ranges.append(str(miss[i]) if i == j else f"{miss[i]}-{miss[j]}")
                    i = j + 1
                out[os.path.relpath(p, os.path.realpath(REPO))] = {"executable": len(ex), "executed": len(hit), "not_executed": ranges}
        return out


LINECOV = SourceCoverage()


def import_repo():
    """make `import pymemcache` resolve to the working tree under test"""
    LINECOV.start()
    if sys.path[0] != REPO:
        sys.path.insert(0, REPO)
    for m in list(sys.modules):
        if m == "pymemcache" or m.startswith("pymemcache."):
            del sys.modules[m]
    import pymemcache  # noqa
    assert os.path.realpath(pymemcache.__file__).startswith(os.path.realpath(REPO)), pymemcache.__file__


def jsonable(x, depth=0):
    """what goes into replay / evidence files must be JSON whatever a harness put into a case description (bytes keys, sets, objects)"""
    if depth > 12:
        return repr(x)[:80]
    if isinstance(x, dict):
        return {(k if isinstance(k, str) else k.hex() if isinstance(k, (bytes, bytearray)) else repr(k)): jsonable(v, depth + 1) for k, v in x.items()}
    if isinstance(x, (list, tuple, set, frozenset)):
        return [jsonable(v, depth + 1) for v in (sorted(x, key=repr) if isinstance(x, (set, frozenset)) else x)]
    if isinstance(x, (bytes, bytearray)):
        return "hex:" + bytes(x).hex()
    if x is None or isinstance(x, (bool, int, float, str)):
        return x
    return repr(x)[:200]


class FakeClock:
    """what the harnesses put in place of the `time` module of pymemcache.client.hash / pymemcache.pool: every clock reading comes from one
    virtual clock `now()`.  `time()` is that clock; `monotonic()` / `perf_counter()` run at the same rate from a different origin, 2**40 s
    apart, as the wall clock and the monotonic clock of a real machine do (subtracting an integer keeps every reading and every difference
    exact) - code that reads either clock consistently behaves the same, code that mixes the two does not."""
    ORIGIN_GAP = 2 ** 40

    def __init__(self, now):
        self._now = now

    def time(self):
        return self._now()

    def monotonic(self):
        return self._now() - self.ORIGIN_GAP

    perf_counter = monotonic

    def time_ns(self):
        return int(self._now() * 10 ** 9)

    def monotonic_ns(self):
        return int(self.monotonic() * 10 ** 9)

    perf_counter_ns = monotonic_ns

    def sleep(self, d):
        raise AssertionError("the code under test slept on the virtual clock")


def hx(b):
    if isinstance(b, str):
        b = b.encode("latin-1")
    return bytes(b).hex() if b else "-"


def unhx(s):
    return b"" if s == "-" else bytes.fromhex(s)


# ------------------------------------------------------------------------------------------------
# Lean side
# ------------------------------------------------------------------------------------------------

class LeanStatus:
    def __init__(self):
        self.build_ok = False
        self.build_log = ""
        self.audit = {}        # theorem name -> (kind, module, axioms list)
        self.forbidden_hits = []
        self.consts_ok = True
        self.leanchecker = None


def _run(cmd, cwd=None, timeout=3600, inp=None):
    p = subprocess.run(cmd, cwd=cwd, input=inp, stdout=subprocess.PIPE, stderr=subprocess.STDOUT,
                       timeout=timeout, text=True)
    return p.returncode, p.stdout


def generate_consts():
    """tiny translator: tables / defaults / signatures of the *current* source -> Generated/Consts.lean"""
    gen = os.path.join(VERIF, "harness", "gen_consts.py")
    out = os.path.join(LEAN, "Pymc", "Generated", "Consts.lean")
    rc, log = _run(["/venv/bin/python", gen, REPO], timeout=120)
    if rc != 0:
        return False, log
    old = open(out).read() if os.path.exists(out) else None
    if old != log:
        with open(out, "w") as f:
            f.write(log)
    return True, ""


def lean_build_and_audit(pid, recheck=False):
    st = LeanStatus()
    lock = os.path.join(LEAN, ".build.lock")
    import fcntl
    with open(lock, "w") as lf:
        fcntl.flock(lf, fcntl.LOCK_EX)
        ok, log = generate_consts()
        if not ok:
            st.consts_ok = False
            st.build_log = "gen_consts failed:\n" + log
        rc, log = _run(["lake", "build", f"Pymc.Props.{pid}", "pymc-driver"], cwd=LEAN, timeout=3600)
        st.build_ok = rc == 0
        st.build_log += log[-6000:]
        # forbidden constructs outside comments
        for root, _, files in os.walk(os.path.join(LEAN, "Pymc")):
            for fn in files:
                if fn.endswith(".lean"):
                    p = os.path.join(root, fn)
                    for i, line in enumerate(strip_lean_comments(open(p).read()).split("\n"), 1):
                        if FORBIDDEN.search(line):
                            st.forbidden_hits.append(f"{os.path.relpath(p, LEAN)}:{i}: {line.strip()[:120]}")
        if st.build_ok:
            st.audit = _audit_cached(pid)
            if recheck:
                # thorough tier: the toolchain's independent re-checker replays the compiled proofs of this property
                rc, log = _run(["lake", "env", "leanchecker", f"Pymc.Props.{pid}"], cwd=LEAN, timeout=3600)
                st.leanchecker = "ok" if rc == 0 else "FAILED: " + log[-500:]
    return st


def strip_lean_comments(src):
    out = []
    i, n, depth = 0, len(src), 0
    while i < n:
        if src.startswith("/-", i):
            depth += 1
            i += 2
        elif depth and src.startswith("-/", i):
            depth -= 1
            i += 2
        elif depth:
            if src[i] == "\n":
                out.append("\n")
            i += 1
        elif src.startswith("--", i):
            while i < n and src[i] != "\n":
                i += 1
        else:
            out.append(src[i])
            i += 1
    return "".join(out)


def _audit_cached(pid):
    olean = os.path.join(LEAN, ".lake", "build", "lib", "lean", "Pymc", "Props", f"{pid}.olean")
    h = hashlib.sha256()
    s = os.stat(olean)
    h.update(f"{olean}:{s.st_mtime_ns}:{s.st_size}\n".encode())
    tmpl = open(os.path.join(LEAN, "Audit.lean")).read()
    h.update(tmpl.encode())
    key = h.hexdigest()
    cache = os.path.join(LEAN, ".lake", f"audit.{pid}.json")
    afile = os.path.join(LEAN, ".lake", f"Audit_{pid}.lean")
    with open(afile, "w") as f:
        f.write(tmpl.replace("import Pymc\n", f"import Pymc.Props.{pid}\n", 1))
    if os.path.exists(cache):
        try:
            c = json.load(open(cache))
            if c.get("key") == key:
                return c["audit"]
        except Exception:
            pass
    rc, out = _run(["lake", "env", "lean", afile], cwd=LEAN, timeout=1800)
    audit = {}
    for line in out.split("\n"):
        if line.startswith("AXIOMS "):
            name, kind, mod, axs = [x.strip() for x in line[7:].split("|")]
            audit[name] = [kind, mod, [a for a in axs.split(",") if a]]
    if rc == 0:
        with open(cache, "w") as f:
            json.dump({"key": key, "audit": audit}, f)
    return audit


def property_theorems(pid):
    """names of the property theorems declared in Props/<pid>.lean (source side of the obligation count)"""
    p = os.path.join(LEAN, "Pymc", "Props", f"{pid}.lean")
    if not os.path.exists(p):
        return []
    src = strip_lean_comments(open(p).read())
    return re.findall(rf"^\s*theorem\s+({pid}_[A-Za-z0-9_']+)", src, re.M)


class Driver:
    """the compiled Lean model driver; `batch` sends lines and returns one reply line per request"""

    def __init__(self):
        self.available = os.path.exists(DRIVER)

    def batch(self, lines, timeout=1800):
        if not lines:
            return []
        if not self.available:
            raise RuntimeError("Lean driver not built")
        data = "\n".join(lines) + "\n"
        p = subprocess.run([DRIVER], input=data, stdout=subprocess.PIPE, stderr=subprocess.PIPE, text=True,
                           timeout=timeout)
        out = p.stdout.split("\n")
        if out and out[-1] == "":
            out.pop()
        if len(out) != len(lines):
            raise RuntimeError(f"driver returned {len(out)} lines for {len(lines)} requests; stderr={p.stderr[:500]}")
        if any("res=stats:{" in l for l in out):
            # the model's `stats` result is the raw dict; apply the implementation's type conversion before anybody compares
            from clientlib import canon_model_line
            out = [canon_model_line(l) for l in out]
        return out


# ------------------------------------------------------------------------------------------------
# run context: counters, evidence, decision
# ------------------------------------------------------------------------------------------------

class Ctx:
    def __init__(self, pid, argv=None):
        import argparse
        ap = argparse.ArgumentParser()
        ap.add_argument("--tier", default=os.environ.get("VERIF_TIER", "quick"))
        ap.add_argument("--replay", default=None)
        ap.add_argument("--no-lean", action="store_true", help="development only: skip build/audit")
        a = ap.parse_args(argv)
        self.pid = pid
        self.tier = "thorough" if a.tier == "thorough" else "quick"
        self.replay = a.replay
        self.no_lean = a.no_lean
        self.seed = int(os.environ.get("VERIF_SEED", "0") or 0)
        self.rng = random.Random(f"{pid}:{self.seed}")
        self.t0 = time.time()
        self.evaluations = 0
        self.nontrivial = set()
        self.samples = []
        self.hist = {}
        self.violations = []      # monitor violations on the real code: dict(what, case, key)
        self.disagreements = []   # model vs implementation: dict(what, case, theorem)
        self.known_hits = {}
        self.assumptions = []
        self.extra = {}
        self.exhaustive = False
        self.rule = ""
        self.findings = load_known_findings(pid)
        self.lean = None
        self.driver = Driver()

    @property
    def thorough(self):
        return self.tier == "thorough"

    def count(self, key, n=1):
        self.hist[key] = self.hist.get(key, 0) + n

    def case(self, canon, nontrivial=True, sample=None):
        """register one evaluated case; `canon` is a hashable canonical form"""
        self.evaluations += 1
        if nontrivial:
            self.nontrivial.add(hashlib.blake2b(repr(canon).encode(), digest_size=8).digest())
        if sample is not None and len(self.samples) < 6:
            self.samples.append(jsonable(sample))

    def violation(self, what, case, tags=()):
        """a violation of the property itself on the real code.  `tags` are matched against known findings."""
        f = match_finding(self.findings, tags)
        if f is not None:
            k = f["id"]
            if k not in self.known_hits:
                self.known_hits[k] = {"finding": f, "n": 0, "example": jsonable(case)}
            self.known_hits[k]["n"] += 1
            return False
        if len(self.violations) < 50:
            self.violations.append({"what": what, "case": jsonable(case), "tags": list(tags)})
        return True

    def disagreement(self, what, case, theorem=None, tags=()):
        # on inputs covered by an open finding either behaviour (defective as modelled, or conforming) is accepted
        if match_finding(self.findings, tags) is not None:
            return
        if len(self.disagreements) < 50:
            self.disagreements.append({"what": what, "case": jsonable(case), "theorem": theorem})

    # -------------------------------------------------------------------------------------------
    def prepare_lean(self):
        if self.no_lean:
            st = LeanStatus()
            st.build_ok = True
            st.audit = None
            self.lean = st
            return st
        self.lean = lean_build_and_audit(self.pid, recheck=self.thorough)
        self.driver = Driver()
        return self.lean

    def obligations(self):
        names = property_theorems(self.pid)
        st = self.lean
        discharged, problems = [], []
        if st is None or not st.build_ok:
            return names, [], ["lake build failed"] if names else ["no theorems"]
        if st.audit is None:
            return names, names, []
        for n in names:
            hit = [(full, v) for full, v in st.audit.items() if full.split(".")[-1] == n]
            if not hit:
                problems.append(f"{n}: not in audit")
                continue
            full, (kind, mod, axs) = hit[0]
            bad = [a for a in axs if a not in ALLOWED_AXIOMS]
            if kind != "theorem":
                problems.append(f"{n}: is a {kind}, not a theorem")
            elif bad:
                problems.append(f"{n}: depends on non-standard axioms {bad}")
            else:
                discharged.append(n)
        for h in st.forbidden_hits:
            problems.append("forbidden construct: " + h)
        if not st.consts_ok:
            problems.append("constant extraction failed")
        if st.leanchecker not in (None, "ok"):
            problems.append("leanchecker: " + st.leanchecker)
        return names, discharged, problems

    # -------------------------------------------------------------------------------------------
    def finish(self, search=None):
        """decide (DESIGN.md §4), write evidence, print VIOLATION / KNOWN-FINDING lines, exit"""
        names, discharged, problems = self.obligations()
        broken = []
        if self.lean is not None and not self.lean.build_ok:
            broken.append({"what": "lake build failed", "log": self.lean.build_log[-3000:]})
        for p in problems:
            broken.append({"what": p})
        replay = None
        line = None
        if self.violations:
            replay = self.write_replay({"kind": "property-violation-on-implementation", "violations": self.violations[:10]})
            line = f"VIOLATION property={self.pid} replay={replay}"
        elif self.disagreements or broken:
            found = None
            if search is not None:
                try:
                    found = search(self)
                except Exception as e:  # search support must never mask the report
                    found = None
                    self.extra["search_error"] = repr(e)
            if found or self.violations:
                replay = self.write_replay({"kind": "property-violation-on-implementation (found by search after a broken obligation/correspondence)",
                                            "violations": self.violations[:10] or [found],
                                            "broken": broken, "disagreements": self.disagreements[:10]})
                line = f"VIOLATION property={self.pid} replay={replay}"
            else:
                replay = self.write_replay({"kind": "obligation-or-correspondence-broken",
                                            "broken_obligations": broken,
                                            "disagreements": self.disagreements[:10],
                                            "theorems_no_longer_tied": sorted({d.get("theorem") for d in self.disagreements if d.get("theorem")}) or names,
                                            "note": "no failing input was found on the implementation; the property is no longer shown to hold"})
                line = f"VIOLATION property={self.pid} replay={replay} no-failing-input-found"
        for k, v in sorted(self.known_hits.items()):
            print(f"KNOWN-FINDING: property={self.pid} {k}: {v['finding']['what']} ({v['n']} cases, e.g. {json.dumps(v['example'], default=str)[:200]})")
        if not self.no_lean:     # development runs without the Lean side never produce evidence
            self.write_evidence(names, discharged, problems, bool(line))
        if line:
            for v in self.violations[:3]:
                print("DETAIL violation: " + v["what"] + " :: " + json.dumps(v["case"], default=str)[:300])
            for d in self.disagreements[:3]:
                print("DETAIL disagreement: " + d["what"] + " :: " + json.dumps(d["case"], default=str)[:300])
            for b in broken[:5]:
                print("DETAIL obligation: " + b["what"] + (" :: " + b.get("log", "")[-800:] if b.get("log") else ""))
            print(line)
            sys.stdout.flush()
            sys.exit(1)
        print(f"OK property={self.pid} tier={self.tier} seed={self.seed} theorems={len(discharged)}/{len(names)} "
              f"cases={self.evaluations} distinct_nontrivial={len(self.nontrivial)} wall={time.time()-self.t0:.1f}s")
        sys.exit(0)

    def write_replay(self, obj):
        d = os.path.join(VERIF, "replays")
        os.makedirs(d, exist_ok=True)
        p = os.path.join(d, f"{self.pid}-{self.tier}-seed{self.seed}.json")
        obj = dict(obj, property=self.pid, tier=self.tier, seed=self.seed,
                   how_to_replay=f"VERIF_SEED={self.seed} ./check {self.pid} --tier {self.tier}  (cases are deterministic in the seed; the listed cases are self-contained)")
        with open(p, "w") as f:
            json.dump(obj, f, indent=1, default=str)
        return p

    def write_evidence(self, names, discharged, problems, violated):
        d = os.path.join(VERIF, "evidence")
        os.makedirs(d, exist_ok=True)
        cov = {
            "obligations": len(names),
            "discharged": len(discharged),
            "checker_cmd": f"cd /verif/lean && lake build Pymc.Props.{self.pid} pymc-driver && lake env lean Audit.lean   # theorems: "
                           + ", ".join(names),
            "trusted_base": TRUSTED_BASE,
            "evaluations": self.evaluations,
            "distinct_nontrivial": len(self.nontrivial),
            "rule": self.rule,
            "samples": self.samples or ["(no correspondence cases in this run)"],
            "exhaustive": self.exhaustive,
            "distribution": dict(sorted(self.hist.items())),
            "theorems": names,
            "obligation_problems": problems,
            "leanchecker": getattr(self.lean, "leanchecker", None),
            "correspondence_disagreements": len(self.disagreements),
            "known_findings_hit": {k: v["n"] for k, v in self.known_hits.items()},
        }
        try:
            cov["library_lines_executed"] = LINECOV.report()
        except Exception as e:
            cov["library_lines_executed"] = {"note": "report failed: " + repr(e)[:120]}
        cov.update(self.extra)
        ev = {
            "property_id": self.pid,
            "tier": self.tier,
            "seed": self.seed,
            "level": "proof",
            "coverage": cov,
            "assumptions": self.assumptions,
            "wall_s": round(time.time() - self.t0, 2),
            "violations": len(self.violations) + (1 if violated and not self.violations else 0),
        }
        with open(os.path.join(d, f"{self.pid}.json"), "w") as f:
            json.dump(ev, f, indent=1, default=str)


# ------------------------------------------------------------------------------------------------
# known findings
# ------------------------------------------------------------------------------------------------

def load_known_findings(pid):
    p = os.path.join(VERIF, "known_findings.json")
    if not os.path.exists(p):
        return []
    allf = json.load(open(p))["findings"]
    return [f for f in allf if f["property"] == pid and f["status"] == "open"]


def match_finding(findings, tags):
    """a finding matches when every one of its `match` tags is among the case's tags (narrow matchers)"""
    tags = set(tags)
    for f in findings:
        if set(f["match"]) <= tags:
            return f
    return None


def shrink_list(xs, fails, max_steps=200):
    """greedy delta-debugging over a list"""
    xs = list(xs)
    steps = 0
    n = 2
    while len(xs) >= 1 and steps < max_steps:
        chunk = max(1, len(xs) // n)
        reduced = False
        for i in range(0, len(xs), chunk):
            cand = xs[:i] + xs[i + chunk:]
            steps += 1
            if cand != xs and fails(cand):
                xs = cand
                n = max(n - 1, 2)
                reduced = True
                break
        if not reduced:
            if chunk == 1:
                break
            n = min(len(xs), n * 2)
    return xs
