"""Differential check of the composed Lean model `HashClient ∘ PooledClient ∘ Client` (driver command `hashpooledcall`, model
`lean/Pymc/Model/HashPooledCall.lean` = `HashInner.lean` instantiated with `PooledCall.callP`) against the real
`pymemcache.client.hash.HashClient(use_pooling=True, …)` over a scripted socket module.

Standalone (not part of `./check`):   python harness/hashpooledcall_diff.py [n_histories] [seed]
Environment: VERIF_REPO (default /repo) = the tree whose pymemcache is imported.

A history is a list of single-key calls (the `_run_cmd` family); every call carries its time, the time at which the pool
releases the inner client, the routing key (a preference order of the servers, given to a deterministic hasher) and a
script: does `connect` fail, does `sendall` fail, and the `recv()` outcomes that arrive on the connection used.  Per
call the two sides are compared on: result token, server handed to `_safely_run_func`, identity of the `PooledClient`
invoked (numbered in order of creation over the whole `HashClient`), identity of the inner client that served
(numbered per pool) and of the socket the commands went out on (numbered per pool in order of successful connects),
the bookkeeping state (`hasher.nodes`, `_failed_clients`, `_dead_clients`, `_last_dead_check_time`) and, for every
`PooledClient` registered in `self.clients`: its identity, its idle inner clients in order (identity, socket held,
whether it has a socket, bytes left unread on it), the sockets it closed so far in order of closing, and the number
of checked-out clients.
"""
from common import FakeClock
import os
import random
import subprocess
import sys

HERE = os.path.dirname(os.path.abspath(__file__))
REPO = os.environ.get("VERIF_REPO", "/repo")
sys.dont_write_bytecode = True
sys.path.insert(0, REPO)
sys.path.insert(0, HERE)
DRIVER = os.path.join(HERE, "..", "lean", ".lake", "build", "bin", "pymc-driver")

import pooledcall_diff as P  # noqa: E402  (script generator, result tokens, scripted exceptions)
import hashcall_diff as HD  # noqa: E402  (call generator, hasher, bookkeeping state)

H = None
Client = None
PooledClient = None
UNBOUNDED = 2 ** 31          # `max_size or 2**31` of ObjectPool


def _bind():
    global H, Client, PooledClient
    HD._bind()
    from pymemcache.client import hash as HH
    from pymemcache.client.base import Client as C, PooledClient as PC
    H, Client, PooledClient = HH, C, PC


class World:
    def __init__(self):
        self.script = None          # script of the public call in progress
        self.fed = False            # its recv() outcomes were already put on a pipe
        self.now = 0                # time.time() of the HashClient, constant during a call
        self.fin = 0                # the pool clock when the inner client is released
        self.pool_now = 0           # the pool clock
        self.prefs = []
        self.routed = None
        self.pcs = []               # PooledClient objects in order of creation
        self.hc = None
        self.safely = []            # servers handed to _safely_run_func during the call
        self.invoked = []           # PooledClients whose pool was asked for a client during the call
        self.served = []            # inner clients handed out during the call
        self.used_sock = None
        self.connected_now = None
        self.leaked = 0             # idle open sockets of replaced PooledClients (never closed by add_server)


class FakeSock:
    def __init__(self, world):
        self.w = world
        self.cid = None
        self.pc = None
        self.pipe = []
        self.is_closed = False

    def settimeout(self, t):
        pass

    def setsockopt(self, *a):
        pass

    def connect(self, addr):
        sc = self.w.script
        if sc["cf"] is not None:
            raise P.boom(sc["cf"])
        # connections are numbered per pool: the PooledClient registered for this server right now
        self.pc = self.w.hc.clients["h:%d" % addr[1]]
        self.cid = self.pc._nconn
        self.pc._nconn += 1
        self.w.connected_now = self.cid

    def sendall(self, data):
        self.w.used_sock = self.cid
        if not self.w.fed:
            self.pipe.extend(self.w.script["evs"])
            self.w.fed = True
        if self.w.script["sf"] is not None:
            raise P.boom(self.w.script["sf"])

    def recv(self, n):
        while True:
            if not self.pipe:
                return b""
            ev = self.pipe.pop(0)
            if ev[0] == "d":
                return ev[1]
            if ev[0] == "i":
                raise InterruptedError(4, "eintr")
            raise P.boom(ev[1])

    def close(self):
        if not self.is_closed:
            self.is_closed = True
            if self.cid is not None:
                self.pc._closed.append(self.cid)


class FakeSocketModule:
    AF_UNIX = 1
    AF_INET = 2
    AF_UNSPEC = 0
    SOCK_STREAM = 1
    IPPROTO_TCP = 6
    TCP_NODELAY = 1
    timeout = __import__("socket").timeout
    error = OSError

    def __init__(self, world):
        self.w = world

    def socket(self, *a):
        return FakeSock(self.w)

    def getaddrinfo(self, host, port, *a):
        return [(2, 1, 6, "", (host, port))]


def gen_history(rng):
    n = rng.choice([1, 2, 2, 3])
    ra = rng.choice([0, 1, 2])
    rt = rng.choice([0, 1, 3])
    dt = rt + rng.choice([1, 2, 6])
    ign = rng.random() < 0.5
    max_size = rng.choice([1, 1, 2, None])
    idle = rng.choice([0, 0, 2, 3, dt])
    pdown = rng.choice([0.0, 0.2, 0.5, 0.9])
    t0 = rng.choice([0, 0, 3])
    t = t0
    history = []
    for _j in range(rng.randint(1, 12)):
        t += rng.choice([0, 0, 1, 1, rt, rt + 1, dt, dt + 1, 2 * dt + 1])
        thunk, tok, reply = HD.gen_call(rng)
        sc = P.gen_script(rng, reply)
        if rng.random() < pdown:
            # the server this call reaches is down: connecting is refused, sending on an old socket fails
            sc["cf"], sc["sf"] = rng.choice([61, 61, 13]), rng.choice([32, 32, 54])
        prefs = rng.sample(range(n), rng.randint(0, n))
        fin = t + rng.choice([0, 0, 0, 1, 2])
        history.append((thunk, tok, sc, t, fin, prefs))
        t = fin
    return (n, ra, rt, dt, ign, t0, max_size, idle), history


def run_python(params, history):
    n, ra, rt, dt, ign, t0, max_size, idle = params
    w = World()

    FakeTime = FakeClock(lambda: w.now)

    class CountingClient(Client):
        pass

    def wrap(name):
        orig = getattr(Client, name)

        def f(self, *a, **kw):
            if self.sock is not None and not w.fed:
                # what arrives during the call arrives whether or not the call gets as far as sending (an inner call may
                # fail its argument checks first): on an open socket it is in the pipe from the start of the inner call
                self.sock.pipe.extend(w.script["evs"])
                w.fed = True
            return orig(self, *a, **kw)
        return f
    for name in ("get", "gets", "gat", "gats", "set", "add", "replace", "append", "prepend", "cas", "delete", "incr", "decr", "touch"):
        setattr(CountingClient, name, wrap(name))

    class CountingPooled(PooledClient):
        def __init__(self, *a, **kw):
            super().__init__(*a, **kw)
            w.pcs.append(self)
            self._nclients = 0
            self._nconn = 0
            self._closed = []
            if idle:
                self.client_pool._idle_clock = lambda: w.pool_now
            real_create = self.client_pool._obj_creator

            def create():
                c = real_create()
                c._iid = self._nclients
                self._nclients += 1
                return c
            self.client_pool._obj_creator = create
            real_get = self.client_pool.get

            def get():
                # the pool reads its clock once in get() (= the time of the call) and once in release()
                w.invoked.append(self)
                w.pool_now = w.now
                o = real_get()
                w.served.append(o)
                w.pool_now = w.fin
                return o
            self.client_pool.get = get

    class HC(H.HashClient):
        client_class = CountingClient

        def _safely_run_func(self, client, func, default_val, *a, **kw):
            w.safely.append(client.server[1])
            return super()._safely_run_func(client, func, default_val, *a, **kw)

        def add_server(self, server, port=None):
            old = self.clients.get(self._make_client_key(server))
            super().add_server(server, port)
            if old is not None:
                # the replaced PooledClient: its idle clients keep their sockets (nothing closes them)
                w.leaked += sum(1 for c in old.client_pool._free_objs if c.sock is not None and not c.sock.is_closed)
    saved_time, saved_pc = H.time, H.PooledClient
    H.time = FakeTime
    H.PooledClient = CountingPooled
    try:
        w.now = w.pool_now = t0
        hc = HC([("h", i) for i in range(n)], hasher=HD.make_hasher(w), retry_attempts=ra, retry_timeout=rt, dead_timeout=dt,
                ignore_exc=ign, socket_module=FakeSocketModule(w), default_noreply=False, use_pooling=True,
                max_pool_size=max_size, pool_idle_timeout=idle)
        w.hc = hc
        out = []
        show = lambda v: "-" if v is None else str(v)  # noqa: E731
        for (thunk, _tok, sc, now, fin, prefs) in history:
            del w.safely[:], w.invoked[:], w.served[:]
            w.script, w.fed, w.now, w.fin, w.prefs, w.routed = sc, False, now, fin, prefs, "unrouted"
            w.used_sock, w.connected_now = None, None
            tok = P.res_token(lambda: thunk(hc))
            assert len(w.safely) <= 1 and len(w.invoked) <= 1 and len(w.served) <= 1
            pcid = {id(p): i for i, p in enumerate(w.pcs)}
            srv = show(w.safely[0] if w.safely else None)
            pc = show(pcid[id(w.invoked[0])] if w.invoked else None)
            inner = show(w.served[0]._iid if w.served else None)
            io = show(w.used_sock if w.used_sock is not None else w.connected_now)
            pools = []
            for key, p in hc.clients.items():
                free = []
                for c in p.client_pool._free_objs:
                    unread = 0
                    if c.sock is not None:
                        unread = sum(len(ev[1]) for ev in c.sock.pipe if ev[0] == "d")
                    free.append("%d/%s/%d/%d" % (c._iid, show(c.sock.cid if c.sock is not None else None), 1 if c.sock is not None else 0, unread))
                pools.append("%s:%d:%s:%s:%d" % (key.split(":")[1], pcid[id(p)], ";".join(free) or "-",
                                                 ".".join(map(str, p._closed)) or "-", len(p.client_pool._used_objs)))
            out.append(f"res={tok} srv={srv} pc={pc} inner={inner} io={io} {HD.state(hc)} pools=[{','.join(pools)}]")
    finally:
        H.time, H.PooledClient = saved_time, saved_pc
    return out, w.leaked


def driver_line(params, history):
    n, ra, rt, dt, ign, t0, max_size, idle = params
    rks = lambda prefs: ",".join(map(str, prefs)) if prefs else "-"  # noqa: E731
    segs = [f"rk={rks(prefs)} t={now},{fin} {tok} {P.script_tokens(sc)}".strip() for (_th, tok, sc, now, fin, prefs) in history]
    return (f"hashpooledcall cfg=000{1 if ign else 0}: fo={ra},{rt},{dt} pool={UNBOUNDED if max_size is None else max_size},{idle} "
            f"n={n} t0={t0} " + " | ".join(segs))


def differential(n, rng, batch, stats=None):
    """n random histories on the real HashClient(use_pooling=True) vs the composed Lean model; `batch` = driver batch function.
    Returns (number of calls compared, list of mismatch dicts)."""
    _bind()
    lines, expect = [], []
    for _ in range(n):
        params, history = gen_history(rng)
        py, leaked = run_python(params, history)
        if stats is not None:
            stats["leaked"] = stats.get("leaked", 0) + leaked
        expect.append(py)
        lines.append(driver_line(params, history))
    outs = batch(lines)
    return HD.compare(lines, outs, expect)


def main():
    n = int(sys.argv[1]) if len(sys.argv) > 1 else 300
    seed = int(sys.argv[2]) if len(sys.argv) > 2 else 1
    rng = random.Random(seed)

    def batch(lines):
        p = subprocess.run([DRIVER], input="\n".join(lines) + "\n", stdout=subprocess.PIPE, text=True, timeout=1200)
        outs = p.stdout.strip("\n").split("\n")
        assert len(outs) == len(lines), (len(outs), len(lines))
        return outs
    stats = {}
    ncalls, bad = differential(n, rng, batch, stats)
    for b in bad[:10]:
        print("MISMATCH")
        for k, v in b.items():
            print("   ", k, ":", v)
    print(f"hashpooledcall_diff: histories={n} calls={ncalls} mismatches={len(bad)} "
          f"open_idle_sockets_dropped_by_add_server={stats.get('leaked', 0)}")
    sys.exit(1 if bad else 0)


if __name__ == "__main__":
    main()
