"""Differential check of the composed Lean model `HashClient ∘ PooledClient ∘ Client` (driver command `hashpooledcall`, models
`lean/Pymc/Model/HashPooledCall.lean` = `HashInner.lean` instantiated with `PooledCall.callP`, and
`lean/Pymc/Model/HashPooledCallMany.lean` = `HashInnerMany.lean` instantiated in the same way) against the real
`pymemcache.client.hash.HashClient(use_pooling=True, …)` over a scripted socket module.

Standalone (not part of `./check`):   python harness/hashpooledcall_diff.py [n_histories] [seed]
Environment: VERIF_REPO (default /repo) = the tree whose pymemcache is imported.

A history is a list of single-key calls (the `_run_cmd` family), `get_many` / `gets_many`, `set_many` and `delete_many` calls
(keys spread over the 1–3 servers by their routing keys); every call carries its time, the time at which the pools release
their inner clients, per key the routing key (a preference order of the servers, given to a deterministic hasher) and a
script — one per call for a single-key call, one per server for `get_many` / `set_many`, one per key for `delete_many`
(which may contact the same server several times): does `connect` fail, does `sendall` fail, and the `recv()` outcomes
that arrive on the connection used.  Per call the two sides are compared on: result token (for `set_many` the list of
failed keys in order); and, per `_safely_run_func` / `_safely_run_set_many` of the call in order: the server handed to it,
the identity of the `PooledClient` whose pool was asked for a client (numbered in order of creation over the whole
`HashClient`), the identity of the inner client that served (numbered per pool) and of the socket the commands went out on
(numbered per pool in order of successful connects); the bookkeeping state (`hasher.nodes`, `_failed_clients`,
`_dead_clients`, `_last_dead_check_time`); and, for every `PooledClient` registered in `self.clients`: its identity, its idle
inner clients in order (identity, socket held, whether it has a socket, bytes left unread on it), the sockets it closed
so far in order of closing, and the number of checked-out clients.
"""
from common import FakeClock
import os
import random
import subprocess
import sys

HERE = os.path.dirname(os.path.abspath(__file__))
REPO = os.environ.get("VERIF_REPO", "/repo")
sys.dont_write_bytecode = True
sys.path.insert(0, REPO)
sys.path.insert(0, HERE)
DRIVER = os.path.join(HERE, "..", "lean", ".lake", "build", "bin", "pymc-driver")

import pooledcall_diff as P  # noqa: E402  (script generator, result tokens, scripted exceptions)
import hashcall_diff as HD  # noqa: E402  (call generators, hasher, bookkeeping state)
try:  # the virtual clock of harness/common.py (time() / monotonic() / … all read one clock)
    from common import FakeClock  # noqa: E402
except ImportError:  # older trees: only time() is read
    class FakeClock:
        def __init__(self, now):
            self._now = now

        def time(self):
            return self._now()

H = None
Client = None
PooledClient = None
UNBOUNDED = 2 ** 31          # `max_size or 2**31` of ObjectPool
EMPTY = {"cf": None, "sf": None, "evs": []}
MULTI = ("many", "setmany", "delmany")


def _bind():
    global H, Client, PooledClient
    HD._bind()
    from pymemcache.client import hash as HH
    from pymemcache.client.base import Client as C, PooledClient as PC
    H, Client, PooledClient = HH, C, PC


class World:
    def __init__(self):
        self.scripts = None         # scripts of the public call in progress: a single one (every server), or {server: script}
        self.fed = set()            # servers whose recv() outcomes were already put on a pipe
        self.per_key = None         # delete_many: the scripts of the `_run_cmd`s still to come, in order
        self.now = 0                # time.time() of the HashClient, constant during a call
        self.fin = 0                # the pool clock when an inner client is released
        self.pool_now = 0           # the pool clock
        self.prefs = []             # routing key of the call in progress (None: the key object carries it)
        self.routed = None
        self.pcs = []               # PooledClient objects in order of creation
        self.hc = None
        self.safely = []            # one entry per _safely_run_func / _safely_run_set_many of the call in progress
        self.cur = None             # the entry of the one in progress
        self.leaked = 0             # idle open sockets of replaced PooledClients (never closed by add_server)

    def script(self, server):
        if isinstance(self.scripts, dict) and "evs" not in self.scripts:
            return self.scripts.get(server, EMPTY)
        return self.scripts


class FakeSock:
    def __init__(self, world):
        self.w = world
        self.cid = None
        self.pc = None
        self.server = None
        self.pipe = []
        self.is_closed = False

    def settimeout(self, t):
        pass

    def setsockopt(self, *a):
        pass

    def connect(self, addr):
        self.server = addr[1]
        sc = self.w.script(self.server)
        if sc["cf"] is not None:
            raise P.boom(sc["cf"])
        # connections are numbered per pool: the PooledClient registered for this server right now
        self.pc = self.w.hc.clients["h:%d" % addr[1]]
        self.cid = self.pc._nconn
        self.pc._nconn += 1
        if self.w.cur is not None:
            self.w.cur["conn"] = self.cid

    def sendall(self, data):
        sc = self.w.script(self.server)
        if self.w.cur is not None:
            self.w.cur["used"] = self.cid
        if self.server not in self.w.fed:
            self.pipe.extend(sc["evs"])
            self.w.fed.add(self.server)
        if sc["sf"] is not None:
            raise P.boom(sc["sf"])

    def recv(self, n):
        while True:
            if not self.pipe:
                return b""
            ev = self.pipe.pop(0)
            if ev[0] == "d":
                return ev[1]
            if ev[0] == "i":
                raise InterruptedError(4, "eintr")
            raise P.boom(ev[1])

    def close(self):
        if not self.is_closed:
            self.is_closed = True
            if self.cid is not None:
                self.pc._closed.append(self.cid)


class FakeSocketModule:
    AF_UNIX = 1
    AF_INET = 2
    AF_UNSPEC = 0
    SOCK_STREAM = 1
    IPPROTO_TCP = 6
    TCP_NODELAY = 1
    timeout = __import__("socket").timeout
    error = OSError

    def __init__(self, world):
        self.w = world

    def socket(self, *a):
        return FakeSock(self.w)

    def getaddrinfo(self, host, port, *a):
        return [(2, 1, 6, "", (host, port))]


def down(rng, sc):
    """the server is down: connecting is refused, sending on an old socket fails"""
    sc["cf"], sc["sf"] = rng.choice([61, 61, 13]), rng.choice([32, 32, 54])


def gen_history(rng, multi=True):
    n = rng.choice([1, 2, 2, 3, 3])
    ra = rng.choice([0, 1, 2])
    rt = rng.choice([0, 1, 3])
    dt = rt + rng.choice([1, 2, 6])
    ign = rng.random() < 0.5
    max_size = rng.choice([1, 1, 2, None])
    idle = rng.choice([0, 0, 2, 3, dt])
    pdown = rng.choice([0.0, 0.2, 0.5, 0.9])
    t0 = rng.choice([0, 0, 3])
    t = t0
    history = []
    for _j in range(rng.randint(1, 12)):
        t += rng.choice([0, 0, 1, 1, rt, rt + 1, dt, dt + 1, 2 * dt + 1])
        fin = t + rng.choice([0, 0, 0, 1, 2])
        r = rng.random() if multi else 1.0
        if r < 0.22:
            gets, keys, scripts = HD.gen_many(rng, n)
            for sv in scripts:
                # per-call fault scripts on individual servers
                if rng.random() < pdown:
                    down(rng, scripts[sv])
            history.append(("many", gets, keys, scripts, t, fin))
        elif r < 0.40:
            values, expire, noreply, flags, scripts = HD.gen_set_many(rng, n)
            for sv in scripts:
                if rng.random() < pdown:
                    down(rng, scripts[sv])
            history.append(("setmany", values, expire, noreply, flags, scripts, t, fin))
        elif r < 0.50:
            keys, noreply, scripts = HD.gen_delete_many(rng, n)
            for sc in scripts:
                if rng.random() < pdown:
                    down(rng, sc)
            history.append(("delmany", keys, noreply, scripts, t, fin))
        else:
            thunk, tok, reply = HD.gen_call(rng)
            sc = P.gen_script(rng, reply)
            if rng.random() < pdown:
                down(rng, sc)
            prefs = rng.sample(range(n), rng.randint(0, n))
            history.append(("cmd", thunk, tok, sc, t, fin, prefs))
        t = fin
    return (n, ra, rt, dt, ign, t0, max_size, idle), history


def run_python(params, history):
    n, ra, rt, dt, ign, t0, max_size, idle = params
    w = World()

    FakeTime = FakeClock(lambda: w.now)

    class CountingClient(Client):
        pass

    def wrap(name):
        orig = getattr(Client, name)

        def f(self, *a, **kw):
            if self.sock is not None and self.sock.server not in w.fed:
                # what arrives during the call arrives whether or not the call gets as far as sending (an inner call may
                # fail its argument checks first): on an open socket it is in the pipe from the start of the inner call
                self.sock.pipe.extend(w.script(self.sock.server)["evs"])
                w.fed.add(self.sock.server)
            return orig(self, *a, **kw)
        return f
    for name in ("get", "gets", "gat", "gats", "set", "add", "replace", "append", "prepend", "cas", "delete", "incr", "decr", "touch",
                 "get_many", "gets_many", "set_many"):
        setattr(CountingClient, name, wrap(name))

    class CountingPooled(PooledClient):
        def __init__(self, *a, **kw):
            super().__init__(*a, **kw)
            w.pcs.append(self)
            self._nclients = 0
            self._nconn = 0
            self._closed = []
            if idle:
                self.client_pool._idle_clock = lambda: w.pool_now
            real_create = self.client_pool._obj_creator

            def create():
                c = real_create()
                c._iid = self._nclients
                self._nclients += 1
                return c
            self.client_pool._obj_creator = create
            real_get = self.client_pool.get

            def get():
                # the pool reads its clock once in get() (= the time of the call) and once in release()
                if w.cur is not None:
                    w.cur["pc"] = self
                w.pool_now = w.now
                o = real_get()
                if w.cur is not None:
                    w.cur["inner"] = o
                w.pool_now = w.fin
                return o
            self.client_pool.get = get

    def entry(client):
        e = {"srv": client.server[1], "pc": None, "inner": None, "used": None, "conn": None}
        w.safely.append(e)
        return e

    class HC(H.HashClient):
        client_class = CountingClient

        def _safely_run_func(self, client, func, default_val, *a, **kw):
            w.cur = entry(client)
            try:
                return super()._safely_run_func(client, func, default_val, *a, **kw)
            finally:
                w.cur = None

        def _safely_run_set_many(self, client, values, *a, **kw):
            w.cur = entry(client)
            try:
                return super()._safely_run_set_many(client, values, *a, **kw)
            finally:
                w.cur = None

        def _run_cmd(self, cmd, key, default_val, *a, **kw):
            if w.per_key is not None:
                # delete_many: every `_run_cmd` of the loop has its own script
                w.scripts, w.fed = w.per_key.pop(0), set()
            return super()._run_cmd(cmd, key, default_val, *a, **kw)

        def add_server(self, server, port=None):
            old = self.clients.get(self._make_client_key(server))
            super().add_server(server, port)
            if old is not None:
                # the replaced PooledClient: its idle clients keep their sockets (nothing closes them)
                w.leaked += sum(1 for c in old.client_pool._free_objs if c.sock is not None and not c.sock.is_closed)
    saved_time, saved_pc = H.time, H.PooledClient
    H.time = FakeTime
    H.PooledClient = CountingPooled
    try:
        w.now = w.pool_now = t0
        hc = HC([("h", i) for i in range(n)], hasher=HD.make_hasher(w), retry_attempts=ra, retry_timeout=rt, dead_timeout=dt,
                ignore_exc=ign, socket_module=FakeSocketModule(w), default_noreply=False, use_pooling=True,
                max_pool_size=max_size, pool_idle_timeout=idle)
        w.hc = hc
        out = []
        show = lambda v: "-" if v is None else str(v)  # noqa: E731
        plus = lambda l: "+".join(l) if l else "-"  # noqa: E731
        for item in history:
            del w.safely[:]
            w.cur, w.per_key, w.fed = None, None, set()
            if item[0] == "setmany":
                _m, values, expire, noreply, flags, scripts, now, fin = item
                w.scripts, w.now, w.fin, w.prefs = scripts, now, fin, None
                tok = P.res_token(lambda: hc.set_many(dict(values), expire, noreply, flags))
            elif item[0] == "delmany":
                _m, keys, noreply, scripts, now, fin = item
                w.scripts, w.now, w.fin, w.prefs = EMPTY, now, fin, None
                w.per_key = list(scripts)
                tok = P.res_token(lambda: hc.delete_many(list(keys), noreply=noreply))
                w.per_key = None
            elif item[0] == "many":
                _m, gets, keys, scripts, now, fin = item
                w.scripts, w.now, w.fin, w.prefs = scripts, now, fin, None
                # the hasher sees the key object: every key object carries its routing key
                ks = [HD.KeyObj(k, prefs) for prefs, k in keys]
                tok = HD.many_token(lambda: (hc.gets_many(ks) if gets else hc.get_many(ks)), gets)
            else:
                _m, thunk, _tok, sc, now, fin, prefs = item
                w.scripts, w.now, w.fin, w.prefs, w.routed = sc, now, fin, prefs, "unrouted"
                tok = P.res_token(lambda: thunk(hc))
            if item[0] == "cmd":
                assert len(w.safely) <= 1
            pcid = {id(p): i for i, p in enumerate(w.pcs)}
            srv = plus([str(e["srv"]) for e in w.safely])
            pc = plus([show(pcid[id(e["pc"])] if e["pc"] is not None else None) for e in w.safely])
            inner = plus([show(e["inner"]._iid if e["inner"] is not None else None) for e in w.safely])
            io = plus([show(e["used"] if e["used"] is not None else e["conn"]) for e in w.safely])
            pools = []
            for key, p in hc.clients.items():
                free = []
                for c in p.client_pool._free_objs:
                    unread = 0
                    if c.sock is not None:
                        unread = sum(len(ev[1]) for ev in c.sock.pipe if ev[0] == "d")
                    free.append("%d/%s/%d/%d" % (c._iid, show(c.sock.cid if c.sock is not None else None), 1 if c.sock is not None else 0, unread))
                pools.append("%s:%d:%s:%s:%d" % (key.split(":")[1], pcid[id(p)], ";".join(free) or "-",
                                                 ".".join(map(str, p._closed)) or "-", len(p.client_pool._used_objs)))
            out.append(f"res={tok} srv={srv} pc={pc} inner={inner} io={io} {HD.state(hc)} pools=[{','.join(pools)}]")
    finally:
        H.time, H.PooledClient = saved_time, saved_pc
    return out, w.leaked


def driver_line(params, history):
    n, ra, rt, dt, ign, t0, max_size, idle = params
    rks = lambda prefs: ",".join(map(str, prefs)) if prefs else "-"  # noqa: E731
    ob = lambda x: "n" if x is None else str(int(x))  # noqa: E731
    per = lambda pre, sc: " ".join(f"{pre}.{tk}" for tk in P.script_tokens(sc).split())  # noqa: E731
    segs = []
    for item in history:
        if item[0] == "many":
            _m, gets, keys, scripts, now, fin = item
            kstr = "|".join(f"{rks(prefs)}~b:{k.hex()}" for prefs, k in keys) if keys else "-"
            sct = " ".join(per(f"s{sv}", sc) for sv, sc in sorted(scripts.items()))
            segs.append(f"op=hget_many gets={int(gets)} t={now},{fin} keys={kstr} {sct}".strip())
        elif item[0] == "setmany":
            _m, values, expire, noreply, flags, scripts, now, fin = item
            istr = "|".join(f"{rks(k.prefs)}~b:{bytes(k).hex()}~{HD.val_token(v)}" for k, v in values.items()) if values else "-"
            sct = " ".join(per(f"s{sv}", sc) for sv, sc in sorted(scripts.items()))
            e = "x" if expire == "soon" else "i:%d" % expire
            segs.append(f"op=hset_many t={now},{fin} items={istr} e={e} nr={ob(noreply)} fl={'n' if flags is None else flags} {sct}".strip())
        elif item[0] == "delmany":
            _m, keys, noreply, scripts, now, fin = item
            kstr = "|".join(f"{rks(k.prefs)}~b:{bytes(k).hex()}" for k in keys) if keys else "-"
            sct = " ".join(per(f"k{j}", sc) for j, sc in enumerate(scripts))
            segs.append(f"op=hdelete_many t={now},{fin} nr={ob(noreply)} keys={kstr} {sct}".strip())
        else:
            _m, _th, tok, sc, now, fin, prefs = item
            segs.append(f"rk={rks(prefs)} t={now},{fin} {tok} {P.script_tokens(sc)}".strip())
    return (f"hashpooledcall cfg=000{1 if ign else 0}: fo={ra},{rt},{dt} pool={UNBOUNDED if max_size is None else max_size},{idle} "
            f"n={n} t0={t0} " + " | ".join(segs))


def compare(lines, outs, expect, kinds):
    """as `hashcall_diff.compare`; a mismatch also says whether the first call that differs is a multi-key call (`multi`)"""
    ncalls, bad = HD.compare(lines, outs, expect)
    by_line = {line[:600]: ks for line, ks in zip(lines, kinds)}
    for b in bad:
        ks = by_line.get(b["line"][:600], [])
        k = b.get("first_difference_at_call")
        b["multi"] = bool(ks) and (any(x in MULTI for x in ks) if k is None or k >= len(ks) else ks[k] in MULTI)
        if k is not None and k < len(ks):
            b["kind_of_call"] = ks[k]
    return ncalls, bad


def differential(n, rng, batch, stats=None):
    """n random histories on the real HashClient(use_pooling=True) vs the composed Lean model; `batch` = driver batch function.
    Returns (number of calls compared, list of mismatch dicts; `multi` in a mismatch = the call that differs is a
    `get_many` / `gets_many` / `set_many` / `delete_many`)."""
    _bind()
    lines, expect, kinds = [], [], []
    for _ in range(n):
        params, history = gen_history(rng)
        py, leaked = run_python(params, history)
        if stats is not None:
            stats["leaked"] = stats.get("leaked", 0) + leaked
            for item in history:
                stats[item[0]] = stats.get(item[0], 0) + 1
        expect.append(py)
        lines.append(driver_line(params, history))
        kinds.append([item[0] for item in history])
    outs = batch(lines)
    return compare(lines, outs, expect, kinds)


def main():
    n = int(sys.argv[1]) if len(sys.argv) > 1 else 300
    seed = int(sys.argv[2]) if len(sys.argv) > 2 else 1
    rng = random.Random(seed)

    def batch(lines):
        p = subprocess.run([DRIVER], input="\n".join(lines) + "\n", stdout=subprocess.PIPE, text=True, timeout=1200)
        outs = p.stdout.strip("\n").split("\n")
        assert len(outs) == len(lines), (len(outs), len(lines))
        return outs
    stats = {}
    ncalls, bad = differential(n, rng, batch, stats)
    for b in bad[:10]:
        print("MISMATCH")
        for k, v in b.items():
            print("   ", k, ":", v)
    print(f"hashpooledcall_diff: histories={n} calls={ncalls} mismatches={len(bad)} "
          f"single={stats.get('cmd', 0)} get_many={stats.get('many', 0)} set_many={stats.get('setmany', 0)} "
          f"delete_many={stats.get('delmany', 0)} open_idle_sockets_dropped_by_add_server={stats.get('leaked', 0)}")
    sys.exit(1 if bad else 0)


if __name__ == "__main__":
    main()
