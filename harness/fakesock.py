"""Fault-plan socket module with byte tags and a socket ledger (the `World` of DESIGN.md).

A `World` plays the operating system, the network and the server(s).  A `FakeSocketModule` bound to a world is
passed as `socket_module=`.  Every socket-API call is appended to `world.ledger`; every byte the server emits is
tagged with the public call during which the provoking command was sent, and `world.check_tags()` judges
reply ownership.

Faults: `world.plan` maps (api, occurrence index of that api in this world since `world.arm()`) -> exception
instance or, for recv, special markers.  Replies come from `world.server(conn, data) -> list of reply events`
where a reply event is bytes, or ("eintr",), or ("exc", exception), or ("eof",).
"""
import errno
import socket as _real


class Interrupt(BaseException):
    """a BaseException that is not an Exception (gevent-style timeout)"""


def mk_exc(kind):
    if kind == "timeout":
        return _real.timeout("timed out")
    if kind == "reset":
        return ConnectionResetError(errno.ECONNRESET, "reset")
    if kind == "refused":
        return ConnectionRefusedError(errno.ECONNREFUSED, "refused")
    if kind == "pipe":
        return BrokenPipeError(errno.EPIPE, "pipe")
    if kind == "oserror":
        return OSError(errno.EIO, "io")
    if kind in ("emfile", "enfile", "eafnosupport", "enobufs", "eacces"):
        # the errno values socket() / setsockopt() really fail with (too many open files, family not supported ...): plain OSErrors all the same
        return OSError(getattr(errno, kind.upper()), kind)
    if kind == "eintr":
        return InterruptedError(errno.EINTR, "interrupted system call")
    if kind == "gaierror":
        return _real.gaierror(-2, "Name or service not known")
    if kind == "valueerror":
        return ValueError("boom")
    if kind == "kbd":
        return KeyboardInterrupt()
    if kind == "sysexit":
        return SystemExit(1)
    if kind == "interrupt":
        return Interrupt()
    raise KeyError(kind)


class Conn:
    def __init__(self, world, cid, family, unix):
        self.world, self.id, self.family, self.unix = world, cid, family, unix
        self.closed = False
        self.close_calls = 0
        self.connected = False
        self.addr = None
        self.timeout_in_force = "unset"
        self.timeout_history = []
        self.opts = []
        self.pipe = []           # list of [kind, payload, tag]; kind in data/eintr/exc/eof
        self.inbuf = b""         # bytes the server received, not yet consumed by its parser
        self.wrapped_by = None   # TLS wrapper conn id
        self.wraps = None
        self.sent = []           # (tag, bytes)

    # --- socket API -------------------------------------------------------------------------
    def _api(self, name, *args):
        w = self.world
        w.ledger.append((name, self.id, args, w.tag))
        w.api_count[name] = w.api_count.get(name, 0) + 1
        f = w.fault_for(name, self)
        if f is not None:
            w.ledger.append(("fault", self.id, (name, type(f).__name__), w.tag))
            raise f

    def settimeout(self, t):
        self._api("settimeout", t)
        self.timeout_in_force = t
        self.timeout_history.append(t)

    def setsockopt(self, *a):
        self._api("setsockopt", *a)
        self.opts.append(a)

    def connect(self, addr):
        self._api("connect", addr)
        if self.closed:
            raise OSError(errno.EBADF, "closed")
        if addr in self.world.refuse_addrs:
            raise ConnectionRefusedError(errno.ECONNREFUSED, "connection refused")
        self.connected = True
        self.addr = addr
        self.world.on_connect(self)

    def sendall(self, data):
        w = self.world
        if self.wrapped_by is not None:
            w.violations.append(("io-on-unwrapped-socket", self.id))
        data = bytes(data)
        # a send fault may strike after part (or all) of the data reached the peer: plan value ("after", nbytes, exc)
        partial = w.partial_send_for(self)
        if partial is not None:
            nbytes, exc = partial
            w.ledger.append(("sendall", self.id, (data,), w.tag))
            w.api_count["sendall"] = w.api_count.get("sendall", 0) + 1
            if not (self.closed or not self.connected):
                head = data if nbytes < 0 else data[:nbytes]
                w.io_timeouts.append((self.id, "sendall", self.timeout_in_force))
                if head:
                    self.sent.append((w.tag, head))
                    w.on_send(self, head)
            w.ledger.append(("fault", self.id, ("sendall", type(exc).__name__), w.tag))
            raise exc
        self._api("sendall", data)
        if self.closed or not self.connected:
            raise OSError(errno.EBADF, "send on closed/unconnected socket")
        w.io_timeouts.append((self.id, "sendall", self.timeout_in_force))
        self.sent.append((w.tag, data))
        w.on_send(self, data)

    def recv(self, n):
        w = self.world
        if self.wrapped_by is not None:
            w.violations.append(("io-on-unwrapped-socket", self.id))
        self._api("recv", n)
        if self.closed or not self.connected:
            raise OSError(errno.EBADF, "recv on closed/unconnected socket")
        w.io_timeouts.append((self.id, "recv", self.timeout_in_force))
        if not self.pipe:
            w.would_block.append((self.id, w.tag))
            w.ledger.append(("would-block", self.id, (), w.tag))
            raise _real.timeout("timed out (nothing scheduled: a real socket would block)")
        kind, payload, tag = self.pipe[0]
        if kind == "data":
            piece, rest = payload[:n], payload[n:]
            if rest:
                self.pipe[0][1] = rest
            else:
                self.pipe.pop(0)
            w.reads.append((w.tag, tag, self.id, piece))
            if tag != w.tag:
                w.foreign_reads.append({"reader": w.tag, "owner": tag, "conn": self.id, "bytes": piece[:40]})
            return piece
        self.pipe.pop(0)
        if kind == "eintr":
            raise OSError(errno.EINTR, "interrupted")
        if kind == "eof":
            self.pipe.insert(0, ["eof", None, tag])     # EOF is sticky
            return b""
        if kind == "exc":
            raise payload
        raise AssertionError(kind)

    def close(self):
        self.close_calls += 1
        try:
            self._api("close")
        except BaseException:
            # an exception out of close(): by default the descriptor is gone anyway; with `close_fault_leaves_open` the exception struck
            # before the descriptor was released (an interruption on the way into close()), so the socket is still usable
            if not getattr(self.world, "close_fault_leaves_open", False):
                self._mark_closed()
            raise
        self._mark_closed()

    def _mark_closed(self):
        self.closed = True
        if self.wraps is not None:
            self.world.conns[self.wraps].closed = True

    def fileno(self):
        return 1000 + self.id

    def push(self, events, tag):
        for ev in events:
            if isinstance(ev, (bytes, bytearray)):
                if ev:
                    self.pipe.append(["data", bytes(ev), tag])
            elif ev[0] == "eintr":
                self.pipe.append(["eintr", None, tag])
            elif ev[0] == "eof":
                self.pipe.append(["eof", None, tag])
            elif ev[0] == "exc":
                self.pipe.append(["exc", ev[1], tag])
            else:
                raise AssertionError(ev)


class World:
    def __init__(self, server=None, addrinfo=None):
        self.conns = []
        self.ledger = []
        self.api_count = {}
        self.plan = {}             # (api, k) -> exception ; k = occurrence index since arm()
        self.refuse_addrs = set()  # addresses whose connect() is refused (a server that is down)
        self.plan_base = {}
        self.tag = None
        self.server = server       # callable(conn, data) -> list of reply events
        self.addrinfo = addrinfo   # callable(host, port) -> list of 5-tuples, or None for default
        self.would_block = []
        self.foreign_reads = []
        self.reads = []
        self.io_timeouts = []
        self.violations = []
        self.connect_hook = None

    def arm(self, plan):
        """install a fault plan counted from now"""
        self.plan = dict(plan)
        self.plan_base = dict(self.api_count)

    def fault_for(self, name, conn):
        k = self.api_count.get(name, 0) - self.plan_base.get(name, 0) - 1
        f = self.plan.pop((name, k), None)
        if f is None:
            f = self.plan.pop((name, "conn%d" % conn.id if conn else None, k), None)
        return f

    def partial_send_for(self, conn):
        """plan entries ("sendall-after", k) -> (nbytes, exc): the k-th sendall delivers nbytes (-1 = all) and then raises"""
        k = self.api_count.get("sendall", 0) - self.plan_base.get("sendall", 0)
        return self.plan.pop(("sendall-after", k), None)

    def on_connect(self, conn):
        if self.connect_hook:
            self.connect_hook(conn)

    def on_send(self, conn, data):
        if self.server is not None:
            evs = self.server(conn, data)
            if evs:
                conn.push(evs, self.tag)

    # --- module-level API ---------------------------------------------------------------------
    def new_conn(self, family, unix):
        c = Conn(self, len(self.conns), family, unix)
        self.conns.append(c)
        return c

    # --- judgments ----------------------------------------------------------------------------
    def open_conns(self):
        return [c for c in self.conns if not c.closed and c.wrapped_by is None]

    def leftover(self, conn):
        return sum(len(p[1]) for p in conn.pipe if p[0] == "data")


class _Ctx:
    """a minimal ssl.SSLContext stand-in: wrap_socket returns a new Conn that owns the raw one"""

    def __init__(self, world):
        self.world = world

    def wrap_socket(self, sock, server_hostname=None):
        w = self.world
        w.ledger.append(("wrap_socket", sock.id, (server_hostname,), w.tag))
        w.api_count["wrap_socket"] = w.api_count.get("wrap_socket", 0) + 1
        f = w.fault_for("wrap_socket", sock)
        if f is not None:
            w.ledger.append(("fault", sock.id, ("wrap_socket", type(f).__name__), w.tag))
            raise f
        c = w.new_conn(sock.family, sock.unix)
        c.wraps = sock.id
        sock.wrapped_by = c.id
        w.ledger.append(("wrapped", c.id, (sock.id,), w.tag))
        return c

    def __bool__(self):
        return True


class FakeSocketModule:
    AF_UNIX = _real.AF_UNIX
    AF_INET = _real.AF_INET
    AF_INET6 = _real.AF_INET6
    AF_UNSPEC = _real.AF_UNSPEC
    SOCK_STREAM = _real.SOCK_STREAM
    IPPROTO_TCP = _real.IPPROTO_TCP
    TCP_NODELAY = _real.TCP_NODELAY
    SOL_SOCKET = _real.SOL_SOCKET
    SO_KEEPALIVE = _real.SO_KEEPALIVE
    timeout = _real.timeout
    error = _real.error
    gaierror = _real.gaierror

    def __init__(self, world):
        self.world = world

    def socket(self, family=_real.AF_INET, kind=_real.SOCK_STREAM, proto=0):
        w = self.world
        w.ledger.append(("socket", None, (int(family), int(kind), int(proto)), w.tag))
        w.api_count["socket"] = w.api_count.get("socket", 0) + 1
        f = w.fault_for("socket", None)
        if f is not None:
            w.ledger.append(("fault", None, ("socket", f.__class__.__name__), w.tag))
            raise f
        c = w.new_conn(family, family == _real.AF_UNIX)
        w.ledger.append(("created", c.id, (), w.tag))
        return c

    def getaddrinfo(self, host, port, family=0, type=0, proto=0, flags=0):
        w = self.world
        w.ledger.append(("getaddrinfo", None, (host, port), w.tag))
        w.api_count["getaddrinfo"] = w.api_count.get("getaddrinfo", 0) + 1
        f = w.fault_for("getaddrinfo", None)
        if f is not None:
            w.ledger.append(("fault", None, ("getaddrinfo", f.__class__.__name__), w.tag))
            raise f
        if w.addrinfo is not None:
            return w.addrinfo(host, port)
        return [(_real.AF_INET, _real.SOCK_STREAM, _real.IPPROTO_TCP, "", (host, port))]

    def tls_context(self):
        return _Ctx(self.world)
