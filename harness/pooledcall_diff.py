"""Differential check of the composed Lean model `PooledClient ∘ Client` (driver command `pooledcall`, model
`lean/Pymc/Model/PooledCall.lean`) against the real `pymemcache.client.base.PooledClient` over a scripted socket module.

Standalone (not part of `./check`):   python harness/pooledcall_diff.py [n_histories] [seed]
Environment: VERIF_REPO (default /repo) = the tree whose pymemcache is imported.

A history is a list of calls; every call carries a script: does `connect` fail, does `sendall` fail, and the `recv()`
outcomes that arrive on the connection the call uses.  Per call the two sides are compared on: result token, identity
of the inner client object (numbered in order of creation), identity of the socket the commands went out on and of
the socket held afterwards (numbered in order of successful connects), whether the inner client has a socket
afterwards, and how many bytes are left unread on it; at the end: the closed sockets in order of closing.
"""
import os
import random
import subprocess
import sys

HERE = os.path.dirname(os.path.abspath(__file__))
REPO = os.environ.get("VERIF_REPO", "/repo")
sys.dont_write_bytecode = True
sys.path.insert(0, REPO)
DRIVER = os.path.join(HERE, "..", "lean", ".lake", "build", "bin", "pymc-driver")

PooledClient = None
X = None


def _bind():
    """import the tree under test lazily (the harness has already put it first on sys.path)"""
    global PooledClient, X, EXC_TOKENS
    from pymemcache.client.base import PooledClient as PC
    from pymemcache import exceptions as XX
    PooledClient, X = PC, XX
    EXC_TOKENS = [
        (X.MemcacheIllegalInputError, "IllegalInput"), (X.MemcacheUnknownCommandError, "UnknownCommand"),
        (X.MemcacheClientError, "ClientError"), (X.MemcacheServerError, "ServerError"),
        (X.MemcacheUnknownError, "UnknownError"), (X.MemcacheUnexpectedCloseError, "UnexpectedClose"),
    ]


class Boom(OSError):
    def __init__(self, code):
        super().__init__(code, "scripted")
        self.code = code


class BaseBoom(BaseException):
    """codes >= 100 stand for a BaseException that is not an Exception (as in the Lean model)"""

    def __init__(self, code):
        super().__init__(code)
        self.code = code


def boom(code):
    return BaseBoom(code) if code >= 100 else Boom(code)


class World:
    def __init__(self):
        self.script = None          # script of the pooled call in progress
        self.fed = False            # its recv() outcomes were already put on a pipe
        self.nconn = 0
        self.closed = []
        self.now = 0
        self.used_sock = None


class FakeSock:
    def __init__(self, world):
        self.w = world
        self.cid = None
        self.pipe = []
        self.is_closed = False

    def settimeout(self, t):
        pass

    def setsockopt(self, *a):
        pass

    def _feed(self):
        if not self.w.fed:
            self.pipe.extend(self.w.script["evs"])
            self.w.fed = True

    def connect(self, addr):
        if self.w.script["cf"] is not None:
            raise boom(self.w.script["cf"])
        self.cid = self.w.nconn
        self.w.nconn += 1
        self.w.connected_now = self.cid

    def sendall(self, data):
        self.w.used_sock = self.cid
        self._feed()
        if self.w.script["sf"] is not None:
            raise boom(self.w.script["sf"])

    def recv(self, n):
        while True:
            if not self.pipe:
                return b""
            ev = self.pipe.pop(0)
            if ev[0] == "d":
                return ev[1]
            if ev[0] == "i":
                raise InterruptedError(4, "eintr")
            raise boom(ev[1])

    def close(self):
        if not self.is_closed:
            self.is_closed = True
            if self.cid is not None:
                self.w.closed.append(self.cid)


class FakeSocketModule:
    AF_UNIX = 1
    AF_INET = 2
    AF_UNSPEC = 0
    SOCK_STREAM = 1
    IPPROTO_TCP = 6
    TCP_NODELAY = 1
    timeout = __import__("socket").timeout
    error = OSError

    def __init__(self, world):
        self.w = world

    def socket(self, *a):
        return FakeSock(self.w)

    def getaddrinfo(self, host, port, *a):
        return [(2, 1, 6, "", (host, port))]


EXC_TOKENS = []


def res_token(fn):
    try:
        r = fn()
    except (Boom, BaseBoom) as e:
        return f"exc:Sock{e.code}"
    except RuntimeError:
        return "exc:TooManyObjects"
    except Exception as e:  # noqa: BLE001
        for cls, tok in EXC_TOKENS:
            if type(e) is cls:
                return "exc:" + tok
        return "exc:" + type(e).__name__
    if r is None:
        return "None"
    if r is True:
        return "True"
    if r is False:
        return "False"
    if isinstance(r, bytes):
        return "b:" + r.hex()
    if isinstance(r, int):
        return f"int:{r}"
    # unexpected shapes (a None where bytes belong, a key that is not bytes ...) become explicit `other:` tokens: a verdict, never a crash of the harness
    def hx_(x):
        return x.hex() if isinstance(x, (bytes, bytearray)) else "other:" + repr(x)[:30].replace(" ", "_")
    if isinstance(r, dict):
        return "dict:{" + ";".join(sorted("b:" + hx_(k) + "=" + hx_(v) for k, v in r.items())) + "}"
    if isinstance(r, list):
        return "keys:[" + ";".join("b:" + hx_(k) for k in r) + "]"
    if isinstance(r, tuple):
        if r == ("DEFAULT", "CASDEFAULT"):
            return "DEFAULTPAIR"
        return "pair:" + ":".join(hx_(x) for x in r)
    if r == "DEFAULT":
        return "DEFAULT"
    return repr(r)


def hexs(b):
    return b.hex()


KEYS = [b"k", b"key2", b"bad key"]


def gen_call(rng):
    """(python thunk factory, driver tokens, reply bytes owed when everything is fine)"""
    k = rng.choice(KEYS)
    kind = rng.choice(["get", "get", "gets", "get_many", "get_many0", "set", "set_nr", "delete", "incr", "version",
                       "touch", "quit", "delete_many0"])
    kt = "b:" + hexs(k)
    if kind == "get":
        return (lambda c: c.get(k, "DEFAULT")), f"op=get k={kt}", rng.choice(
            [b"END\r\n", b"VALUE " + k + b" 0 2\r\nhi\r\nEND\r\n", b"ERROR\r\n", b"SERVER_ERROR x\r\n", b"garbage\r\n"])
    if kind == "gets":
        return (lambda c: c.gets(k, "DEFAULT", "CASDEFAULT")), f"op=gets k={kt}", rng.choice(
            [b"END\r\n", b"VALUE " + k + b" 0 2 77\r\nhi\r\nEND\r\n", b"ERROR\r\n"])
    if kind == "get_many":
        return (lambda c: c.get_many([k, b"z"])), f"op=get_many ks={kt}|b:7a", rng.choice(
            [b"END\r\n", b"VALUE z 0 1\r\nq\r\nEND\r\n", b"CLIENT_ERROR y\r\n"])
    if kind == "get_many0":
        return (lambda c: c.get_many([])), "op=get_many ks=-", b""
    if kind == "delete_many0":
        return (lambda c: c.delete_many([])), "op=delete_many ks=- nr=n", b""
    if kind == "set":
        return (lambda c: c.set(k, b"v", noreply=False)), f"op=set k={kt} v=b:76 e=i:0 nr=0 fl=n cas=n", rng.choice(
            [b"STORED\r\n", b"NOT_STORED\r\n", b"ERROR\r\n", b"SERVER_ERROR out of memory\r\n", b"what\r\n"])
    if kind == "set_nr":
        return (lambda c: c.set(k, b"v", noreply=True)), f"op=set k={kt} v=b:76 e=i:0 nr=1 fl=n cas=n", b""
    if kind == "delete":
        return (lambda c: c.delete(k, noreply=False)), f"op=delete k={kt} nr=0", rng.choice(
            [b"DELETED\r\n", b"NOT_FOUND\r\n", b"ERROR\r\n"])
    if kind == "incr":
        return (lambda c: c.incr(k, 1, noreply=False)), f"op=incr k={kt} d=i:1 nr=0", rng.choice(
            [b"5\r\n", b"NOT_FOUND\r\n", b"abc\r\n", b"CLIENT_ERROR non-numeric\r\n"])
    if kind == "version":
        return (lambda c: c.version()), "op=version", rng.choice([b"VERSION 1.6\r\n", b"OK\r\n", b"ERROR\r\n"])
    if kind == "touch":
        return (lambda c: c.touch(k, 5, noreply=False)), f"op=touch k={kt} e=i:5 nr=0", rng.choice(
            [b"TOUCHED\r\n", b"NOT_FOUND\r\n"])
    return (lambda c: c.quit()), "op=quit", b""


def gen_script(rng, reply):
    evs = []
    if reply:
        mode = rng.random()
        if mode < 0.55:
            # whole reply, cut into pieces
            i = 0
            while i < len(reply):
                n = rng.randint(1, max(1, len(reply) - i))
                evs.append(("d", reply[i:i + n]))
                i += n
                if rng.random() < 0.15:
                    evs.append(("i",))
        elif mode < 0.8:
            cut = rng.randint(0, len(reply) - 1)
            if cut:
                evs.append(("d", reply[:cut]))
            evs.append(rng.choice([("d", b""), ("x", 7), ("x", 104), ("x", 130)]))
            if rng.random() < 0.5:
                evs.append(("d", b"JUNK\r\n"))
        else:
            evs.append(("d", reply))
            evs.append(rng.choice([("i",), ("x", 9)]))
    cf = rng.choice([None] * 8 + [111, 150])
    sf = rng.choice([None] * 8 + [32, 140])
    return {"cf": cf, "sf": sf, "evs": evs}


def script_tokens(sc):
    out = []
    if sc["cf"] is not None:
        out.append(f"cf=x{sc['cf']}")
    if sc["sf"] is not None:
        out.append(f"sf=x{sc['sf']}")
    for ev in sc["evs"]:
        if ev[0] == "d":
            out.append("ev=d:" + hexs(ev[1]))
        elif ev[0] == "i":
            out.append("ev=i")
        else:
            out.append(f"ev=x:{ev[1]}")
    return " ".join(out)


def run_python(history, ignore_exc, max_size, idle):
    w = World()
    import pymemcache.pool as pool_mod
    pc = PooledClient(("h", 1), socket_module=FakeSocketModule(w), ignore_exc=ignore_exc, max_pool_size=max_size,
                      pool_idle_timeout=idle, default_noreply=False)
    if idle:
        pc.client_pool._idle_clock = lambda: w.now
    clients = {}
    keep = []                   # strong references: `id()` of a collected client object must not be handed out again
    orig_create = pc._create_client

    def create():
        c = orig_create()
        keep.append(c)
        clients[id(c)] = len(clients)
        return c
    pc.client_pool._obj_creator = create
    # release happens at `fin`: the clock is read once in get() and once in release()
    out = []
    for (thunk, _tok, sc, now, fin) in history:
        w.script, w.fed, w.used_sock, w.connected_now = sc, False, None, None
        served = []
        real_get = pc.client_pool.get

        def get():
            w.now = now
            o = real_get()
            served.append(o)
            w.now = fin
            return o
        pc.client_pool.get = get
        tok = res_token(lambda: thunk(pc))
        pc.client_pool.get = real_get
        if served:
            c = served[0]
            cid = clients[id(c)]
            destroyed = c not in pc.client_pool._free_objs
            sock = None if destroyed else c.sock
            io = w.used_sock if w.used_sock is not None else w.connected_now
            unread = 0
            if sock is not None:
                unread = sum(len(ev[1]) for ev in sock.pipe if ev[0] == "d")
            out.append((tok, cid, io, None if sock is None else sock.cid, 1 if sock is not None else 0, unread))
        else:
            out.append((tok, None, None, None, 0, 0))
    return out, list(w.closed)


def exc_code_norm(tok):
    return tok


def differential(n, rng, batch):
    """n random histories on the real PooledClient vs the composed Lean model; `batch` = driver batch function.
    Returns (number of calls compared, list of mismatch dicts)."""
    _bind()
    lines, expect, descs = [], [], []
    for _ in range(n):
        ignore_exc = rng.random() < 0.5
        max_size = rng.choice([1, 1, 2])
        idle = rng.choice([0, 0, 3])
        t = 0
        history = []
        for _j in range(rng.randint(1, 7)):
            thunk, tok, reply = gen_call(rng)
            sc = gen_script(rng, reply)
            now = t + rng.randint(0, 4)
            fin = now + rng.randint(0, 2)
            t = fin
            history.append((thunk, tok, sc, now, fin))
        py, closed = run_python(history, ignore_exc, max_size, idle)
        segs = [f"{tok} t={now},{fin} {script_tokens(sc)}".strip() for (_th, tok, sc, now, fin) in history]
        lines.append(f"pooledcall cfg=000{1 if ignore_exc else 0}: pool={max_size},{idle} " + " | ".join(segs))
        expect.append((py, closed))
    outs = batch(lines)
    bad, ncalls = [], 0
    show = lambda v: "-" if v is None else str(v)  # noqa: E731
    for line, out, (py, closed) in zip(lines, outs, expect):
        ncalls += len(py)
        mine = [f"res={tok} client={show(cid)} io={show(io)} conn={show(conn)} open={op} unread={unread}" for (tok, cid, io, conn, op, unread) in py]
        if not out.startswith("ok ") or " ; " not in out:
            bad.append({"line": line[:400], "impl": mine, "model": out[:300]})
            continue
        body, tail = out[3:].split(" ; ")
        lean = [" ".join(o.split(" ")[:6]) for o in body.split(" | ")]
        lean_closed = tail.split("closed=[")[1].split("]")[0]
        if mine != lean or lean_closed != ",".join(map(str, closed)):
            k = next((i for i, (a, b) in enumerate(zip(mine, lean)) if a != b), None)
            bad.append({"line": line[:400], "first_difference_at_call": k, "impl": mine[:k + 1] if k is not None else mine, "model": lean[:k + 1] if k is not None else lean,
                        "closed_impl": closed, "closed_model": lean_closed})
    return ncalls, bad


def main():
    n = int(sys.argv[1]) if len(sys.argv) > 1 else 300
    seed = int(sys.argv[2]) if len(sys.argv) > 2 else 1
    rng = random.Random(seed)
    _bind()
    lines, expect = [], []
    for _ in range(n):
        ignore_exc = rng.random() < 0.5
        max_size = rng.choice([1, 1, 2])
        idle = rng.choice([0, 0, 3])
        t = 0
        history = []
        for _j in range(rng.randint(1, 7)):
            thunk, tok, reply = gen_call(rng)
            sc = gen_script(rng, reply)
            now = t + rng.randint(0, 4)
            fin = now + rng.randint(0, 2)
            t = fin
            history.append((thunk, tok, sc, now, fin))
        py, closed = run_python(history, ignore_exc, max_size, idle)
        segs = [f"{tok} t={now},{fin} {script_tokens(sc)}".strip() for (_th, tok, sc, now, fin) in history]
        lines.append(f"pooledcall cfg=000{1 if ignore_exc else 0}: pool={max_size},{idle} " + " | ".join(segs))
        expect.append((py, closed))
    p = subprocess.run([DRIVER], input="\n".join(lines) + "\n", stdout=subprocess.PIPE, text=True, timeout=600)
    outs = p.stdout.strip("\n").split("\n")
    assert len(outs) == len(lines), (len(outs), len(lines))
    bad = 0
    ncalls = 0
    for line, out, (py, closed) in zip(lines, outs, expect):
        if not out.startswith("ok "):
            print("DRIVER-REJECTED", line, out)
            bad += 1
            continue
        body, tail = out[3:].split(" ; ")
        obs = body.split(" | ")
        show = lambda v: "-" if v is None else str(v)  # noqa: E731
        mine = []
        for (tok, cid, io, conn, op, unread) in py:
            mine.append(f"res={tok} client={show(cid)} io={show(io)} conn={show(conn)} open={op} unread={unread}")
        lean = [" ".join(o.split(" ")[:6]) for o in obs]
        lean_closed = tail.split("closed=[")[1].split("]")[0]
        ncalls += len(py)
        if mine != lean or lean_closed != ",".join(map(str, closed)):
            bad += 1
            print("MISMATCH")
            print("  line  :", line)
            print("  python:", mine, closed)
            print("  lean  :", lean, lean_closed)
    print(f"pooledcall_diff: histories={n} calls={ncalls} mismatches={bad}")
    sys.exit(1 if bad else 0)


if __name__ == "__main__":
    main()
