"""C07 — ignore_exc turns every read failure into a cache miss.
For every read operation of Client / PooledClient / HashClient with ignore_exc=True and every failure (connect, send,
receive faults at every position, error / garbage / truncated replies, failing deserialiser, all servers down) the
call must return exactly what the *same call on an empty healthy server of the real code* returns, and the object must
be usable afterwards.  Correspondence: Lean `Client.call` with ignoreExc."""
from clientlib import CASDEFAULT, DEFAULT, call_tokens, canon_value, cfg_tok, SOCK_CODES
from common import FakeClock, Ctx, hx, import_repo
from faultrun import FAULT_KINDS, MUTATIONS, Scripted, ev_tokens


class BadSerde:
    """a deserialiser that fails the way real ones do: with whatever exception the decoding library raises"""

    def __init__(self, how="RuntimeError"):
        self.how = how

    def serialize(self, key, value):
        return value, 0

    def deserialize(self, key, value, flags):
        import json
        import pickle
        if self.how == "TypeError":
            return dict(**{1: 2})                      # "keywords must be strings"
        if self.how == "ValueError":
            return json.loads("{not json")
        if self.how == "KeyError":
            return {}["schema_version"]
        if self.how == "UnicodeDecodeError":
            return b"\xff\xfe".decode("utf8")
        if self.how == "UnpicklingError":
            return pickle.loads(b"garbage")
        if self.how == "AttributeError":
            return None.field
        raise RuntimeError("cannot deserialize")


def reads(cls):
    """(name, invoke(obj)) for every read op the class offers, defaults by keyword; positional for get"""
    R = [
        ("get", lambda o: o.get("a", default=DEFAULT)),
        ("get-positional", lambda o: o.get("a", DEFAULT)),
        ("get-nodefault", lambda o: o.get("a")),
        ("gets", lambda o: o.gets("a")),
        ("get_many", lambda o: o.get_many(["a", "b"])),
        ("gets_many", lambda o: o.gets_many(["a", "b"])),
        ("gat", lambda o: o.gat("a", default=DEFAULT)),
        ("gats", lambda o: o.gats("a", default=DEFAULT)),
    ]
    R.append(("gets-defaults", lambda o: o.gets("a", default=DEFAULT, cas_default=CASDEFAULT)))
    R.append(("gats-defaults", lambda o: o.gats("a", default=DEFAULT, cas_default=CASDEFAULT)))
    R.append(("gat-positional-expire", lambda o: o.gat("a", 10, DEFAULT)))
    return R


def build(cls, S, classes, serde=None, servers=1):
    Client, PooledClient, HashClient = classes
    kw = {"socket_module": S.sm, "ignore_exc": True}
    if serde is not None:
        kw["serde"] = serde
    if cls == "Client":
        return Client(("h", 1), **kw)
    if cls == "Pooled":
        return PooledClient(("h", 1), max_pool_size=2, **kw)
    if cls == "Hash":
        return HashClient([("h", i + 1) for i in range(servers)], retry_attempts=0, retry_timeout=0, dead_timeout=0, **kw)
    if cls == "HashPooled":
        return HashClient([("h", i + 1) for i in range(servers)], use_pooling=True, retry_attempts=1, retry_timeout=0, dead_timeout=0, **kw)
    if cls == "HashUnix":
        return HashClient(["/var/run/mc%d.sock" % i for i in range(servers)], retry_attempts=0, retry_timeout=0, dead_timeout=0, **kw)
    if cls == "HashUnixRetry":
        return HashClient(["unix:/var/run/mc%d.sock" % i for i in range(servers)], retry_attempts=2, retry_timeout=0, dead_timeout=0, **kw)


def canon(r):
    if isinstance(r, BaseException):
        return "raised:" + type(r).__name__
    if r is DEFAULT:
        return "DEFAULT"
    if isinstance(r, tuple):
        return "(" + ",".join(canon(x) for x in r) + ")"
    if r is CASDEFAULT:
        return "CASDEFAULT"
    return repr(r)


def main(argv):
    ctx = Ctx("C07", argv)
    ctx.prepare_lean()
    import_repo()
    from pymemcache.client.base import Client, PooledClient
    from pymemcache.client.hash import HashClient
    classes = (Client, PooledClient, HashClient)
    rng = ctx.rng
    ctx.rule = ("classes {Client, PooledClient, HashClient, HashClient pooled} x every read method (defaults by keyword, positional for get) x failure plan "
                "{4 connect faults, 3 send faults, 4 recv fault kinds x positions 0..7(13), 8 reply mutations, failing deserialiser, all servers down} "
                "x key present/absent on the server; oracle = the same call on an empty healthy server; non-trivial = distinct (class, method, plan)")
    ctx.exhaustive = True
    plans = []
    for api in ("getaddrinfo", "socket", "connect", "settimeout"):
        plans.append({"connect_fault": (api, "refused" if api == "connect" else "oserror")})
    for k in ("pipe", "reset", "timeout"):
        plans.append({"send_fault": k})
    for kind in FAULT_KINDS:
        for pos in range(0, 14 if ctx.thorough else 8):
            plans.append({"recv_fault": (pos, kind), "chunk": "bytes" if pos % 2 else "rand"})
    for m in MUTATIONS[1:]:
        plans.append({"mutation": m})
    for how in ("RuntimeError", "TypeError", "ValueError", "KeyError", "UnicodeDecodeError", "UnpicklingError", "AttributeError"):
        plans.append({"bad_serde": how})
    model_lines, model_meta = [], []
    n = 0
    for cls in ("Client", "Pooled", "Hash", "HashPooled", "HashUnix", "HashUnixRetry"):
        for name, inv in reads(cls):
            # miss result on an empty healthy server of the real code
            S0 = Scripted(rng)
            o0 = build(cls, S0, classes)
            S0.begin_call(0, {})
            try:
                miss = inv(o0)
            except Exception as e:
                miss = e
            for plan in plans:
                for present in (True, False):
                    S = Scripted(rng)
                    obj = build(cls, S, classes, serde=BadSerde(plan["bad_serde"]) if plan.get("bad_serde") else None)
                    if present:
                        S.begin_call(0, {})
                        try:
                            obj.set("a", b"v", noreply=False)
                            obj.set("b", b"w", noreply=False)
                        except Exception:
                            pass
                    elif plan.get("bad_serde") or plan.get("mutation") in ("wrong-key", "non-numeric-size"):
                        continue
                    was_open = cls == "Client" and obj.sock is not None
                    S.begin_call(1, {k: v for k, v in plan.items() if k != "bad_serde"})
                    try:
                        got = inv(obj)
                    except Exception as e:
                        got = e
                    n_altered_call = S.n_altered
                    n += 1
                    case = {"class": cls, "method": name, "plan": repr(plan), "key_present": present, "got": canon(got)[:80], "miss": canon(miss)[:80]}
                    ctx.case((cls, name, repr(plan), present), sample=case if n in (30, 900) else None)
                    ctx.count("class:" + cls)
                    tags = ["class:" + cls, "method:" + name.split("-")[0]]
                    # was there a failure at all?  (a fault scheduled after the reply was consumed never fires)
                    fired = bool(plan.get("bad_serde")) or plan.get("connect_fault") and not was_open or plan.get("send_fault") \
                        or any(e[0] == "fault" for e in S.world.ledger) or plan.get("mutation") or any(
                            ev[0] in ("exc", "eof") for c in S.world.conns for ev in [(p[0],) for p in c.pipe]) or plan.get("recv_fault")
                    healthy_equiv = canon(got)
                    if "many" in name and not isinstance(got, Exception) and fired and isinstance(got, dict) and not got and canon(miss) != "{}":
                        ctx.violation("the miss value of a multi-key read is not an empty dict", dict(case, miss=canon(miss)[:80]), tags=tags + ["shape"])
                    if isinstance(got, dict):
                        # the caller owns what it got: filling it in (read-through caching) must not show up in any later result
                        got_before = canon(got)
                        got["__filled_in_by_caller__"] = b"x"
                        S.begin_call(3, {k: v for k, v in plan.items() if k != "bad_serde"})
                        try:
                            again = inv(obj)
                        except Exception as e:
                            again = e
                        if isinstance(again, dict) and "__filled_in_by_caller__" in again:
                            ctx.violation("a later read returned the container an earlier (failed) read had handed to the caller, with the caller's additions",
                                          dict(case, later=canon(again)[:100]), tags=tags + ["shape", "shared-result"])
                        got.pop("__filled_in_by_caller__", None)
                        S0b = Scripted(rng)
                        o0b = build(cls, S0b, classes)
                        S0b.begin_call(0, {})
                        try:
                            fresh_miss = inv(o0b)
                        except Exception as e:
                            fresh_miss = e
                        if canon(fresh_miss) != "{}" and "many" in name:
                            ctx.violation("the miss value of a multi-key read on a healthy empty server is not an empty dict (any more)", dict(case, miss=canon(fresh_miss)[:80]),
                                          tags=tags + ["shape", "shared-result"])
                    if isinstance(got, Exception):
                        ctx.violation("a read raised although ignore_exc is set", case, tags=tags + ["raised"])
                    elif canon(got) != canon(miss):
                        # not a failure: the plan may not have fired and the real value came back
                        hit = False
                        altered = plan.get("mutation") in ("value-missing-cas", "value-extra-token") and n_altered_call > 0
                        if present and not altered:
                            S2 = Scripted(rng)
                            o2 = build(cls, S2, classes)
                            S2.begin_call(0, {})
                            o2.set("a", b"v", noreply=False)
                            o2.set("b", b"w", noreply=False)
                            try:
                                hit = canon(inv(o2)) == canon(got)
                            except Exception:
                                hit = False
                        partial_ok = False
                        if not hit and name.startswith("get") and "many" in name and isinstance(got, dict):
                            partial_ok = False
                        if not hit:
                            ctx.violation("with ignore_exc a failed read did not return what the same call returns for a miss", case, tags=tags + ["shape"])
                    # still usable
                    S.begin_call(2, {})
                    try:
                        r2 = obj.get("zzz", default=DEFAULT)
                        if r2 is not DEFAULT:
                            ctx.violation("client not usable after an ignored failure (a healthy miss did not return the default)", dict(case, after=canon(r2)), tags=tags)
                    except Exception as e:
                        ctx.violation("client not usable after an ignored failure", dict(case, after=repr(e)[:80]), tags=tags)
                    if S.world.foreign_reads:
                        ctx.violation("after an ignored failure a later call read bytes of an earlier call", case, tags=tags)
    # ---- an outage that lasts: every read during it is a miss, whatever the failover bookkeeping does as time passes (retry windows, the server
    #      declared dead, dead_timeout elapsing while it is still down), and reads work again once the server is back ---------------------------
    import pymemcache.client.hash as hash_mod
    import pymemcache.pool as pool_mod
    clock = [5000.0]
    fake_time = FakeClock(lambda: clock[0])
    real_ht, real_pt = hash_mod.time, pool_mod.time
    hash_mod.time = pool_mod.time = fake_time
    try:
        for cls, kw in (("Client", {}), ("Pooled", {}), ("Hash", {"retry_attempts": 0}), ("Hash", {"retry_attempts": 2}), ("Hash", {}), ("HashPooled", {"retry_attempts": 1}),
                        ("Hash2", {"retry_attempts": 0}), ("Hash2", {"retry_attempts": 2}), ("HashUnix", {"retry_attempts": 0}), ("HashUnix", {"retry_attempts": 1})):
            for name, inv in reads(cls):
                for down_kind in ("refused", "timeout"):
                    S = Scripted(rng)
                    Client_, Pooled_, Hash_ = classes
                    base = {"socket_module": S.sm, "ignore_exc": True}
                    if cls == "Client":
                        obj = Client_(("h", 1), **base)
                    elif cls == "Pooled":
                        obj = Pooled_(("h", 1), max_pool_size=2, **base)
                    else:
                        hk = dict(retry_timeout=5, dead_timeout=60, **kw)
                        srvs = [("h", 1)] if cls not in ("Hash2", "HashUnix") else [("h", 1), ("h", 2)] if cls == "Hash2" else ["/var/run/mc.sock"]
                        obj = Hash_(srvs, use_pooling=(cls == "HashPooled"), **hk, **base)
                    S.begin_call(0, {})
                    try:
                        miss = inv(obj)
                    except Exception as e:
                        miss = e
                    try:
                        obj.set("a", b"stored-before-the-outage", noreply=False)
                        miss_hit = None
                    except Exception:
                        pass
                    case0 = {"class": cls, "options": kw, "method": name, "outage": down_kind}
                    ctx.case(("outage", cls, repr(kw), name, down_kind))
                    ctx.count("lasting-outages")
                    ok = True
                    t0 = clock[0]
                    for step, dt_ in enumerate((0, 1, 4, 2, 30, 31, 1, 61, 1, 200, 0)):
                        clock[0] += dt_
                        # every connection attempt of this call fails
                        S.begin_call(10 + step, {})
                        S.world.arm({("connect", k_): __import__("fakesock").mk_exc(down_kind) for k_ in range(8)})
                        for o_ in ([obj] if cls in ("Client",) else []):
                            pass
                        try:
                            if cls == "Client" and obj.sock is not None:
                                obj.close()
                            if cls == "Pooled":
                                obj.close()
                            if cls.startswith("Hash"):
                                for c_ in obj.clients.values():
                                    c_.close()
                            got = inv(obj)
                        except Exception as e:
                            got = e
                        if isinstance(got, Exception) or canon(got) != canon(miss):
                            ctx.violation("a read during a lasting outage " + ("raised although ignore_exc is set" if isinstance(got, Exception) else "did not return the miss value"),
                                          dict(case0, seconds_into_outage=clock[0] - t0, step=step, got=canon(got)[:100], miss=canon(miss)[:80]),
                                          tags=["class:" + cls, "method:" + name.split("-")[0], "outage"] + (["raised"] if isinstance(got, Exception) else ["shape"]))
                            ok = False
                            break
                    if not ok:
                        continue
                    # the server is back and traffic is DENSE (a read every few seconds, never a gap longer than dead_timeout): within two
                    # dead_timeout periods the object must serve the stored key again
                    S.world.arm({})
                    if cls not in ("Client", "Pooled"):
                        back = None
                        for tick in range(40):
                            clock[0] += 4
                            S.begin_call(50 + tick, {})
                            try:
                                back = obj.get("a", default=DEFAULT)
                            except Exception as e:
                                back = e
                            if back == b"stored-before-the-outage":
                                break
                        if back != b"stored-before-the-outage":
                            ctx.violation("after a lasting outage ended, 160 s of steady traffic (dead_timeout = 60 s) did not bring the object back to serving the stored key",
                                          dict(case0, last=canon(back)[:80]), tags=["class:" + cls, "outage", "not-usable-afterwards"])
                            continue
                    for dt_ in (0, 61, 61, 1):
                        clock[0] += dt_
                        S.begin_call(99, {})
                        try:
                            got = obj.get("zzz", default=DEFAULT)
                        except Exception as e:
                            got = e
                        if got is not DEFAULT:
                            ctx.violation("client not usable after a lasting outage ended", dict(case0, after=canon(got)[:100]), tags=["class:" + cls, "outage"])
                            break
    finally:
        hash_mod.time, pool_mod.time = real_ht, real_pt
    # model comparison through dedicated runs (records the events before the follow-up call)
    lines, metas = [], []
    cdescs = [("get", {"op": "get", "k": "a"}, lambda o: o.get("a", default=DEFAULT)), ("gets", {"op": "gets", "k": "a"}, lambda o: o.gets("a", default=DEFAULT, cas_default=CASDEFAULT)),
              ("get_many", {"op": "get_many", "ks": ["a", "b"]}, lambda o: o.get_many(["a", "b"])), ("gats", {"op": "gats", "k": "a", "e": 0}, lambda o: o.gats("a", 0, default=DEFAULT, cas_default=CASDEFAULT)),
              # the two administrative operations that go through `_fetch_cmd`, hence obey ignore_exc: stats -> {} on failure, cache_memlimit -> True
              ("stats", {"op": "stats"}, lambda o: o.stats()), ("stats-items", {"op": "stats", "args": ("items",)}, lambda o: o.stats("items")),
              ("stats-cachedump", {"op": "stats", "args": ("cachedump", "1", "0")}, lambda o: o.stats("cachedump", "1", "0")),
              ("cache_memlimit", {"op": "cache_memlimit", "m": 64}, lambda o: o.cache_memlimit(64))]
    for name, cdesc, inv in cdescs:
        for plan in plans:
            if plan.get("bad_serde"):
                continue
            for warm in (False, True):
                S = Scripted(rng)
                obj = build("Client", S, classes)
                S.begin_call(0, {})
                if warm:
                    obj.set("a", b"v", noreply=False)
                was_open = obj.sock is not None
                S.begin_call(1, plan)
                try:
                    r = canon_value(cdesc["op"], inv(obj))
                except Exception as e:
                    r = "raised:" + type(e).__name__
                evs = [e for cid, pushed in S.pushed for e in pushed]
                cf, sfk = plan.get("connect_fault"), plan.get("send_fault")
                lines.append(f"call {cfg_tok(dnr=True, ign=True)} open={int(was_open)} {call_tokens(cdesc)} cf={'x' + str(SOCK_CODES[cf[1]]) if cf else '-'} "
                             f"sf={'x' + str(SOCK_CODES[sfk]) if sfk else '-'} {ev_tokens(evs)}")
                metas.append(({"method": name, "plan": repr(plan), "warm": warm}, r, obj.sock is not None))
                ctx.count("model-compared-calls")
    if ctx.lean.build_ok:
        for (case, r, sock_open), o in zip(metas, ctx.driver.batch(lines)):
            got = {kv.split("=", 1)[0]: kv.split("=", 1)[1] for kv in o.split(" ")[1:] if "=" in kv}
            if got.get("res") != r or got.get("open") != str(int(sock_open)):
                ctx.disagreement("Lean Client.call (ignore_exc) differs from the implementation", dict(case, impl=r, impl_open=sock_open, model=o[:200]), theorem="C07_ignore_exc_is_miss")
    ctx.assumptions = ["a miss is what the same call returns on an empty healthy server", "failures are Exception-class (BaseException is C10)"]
    ctx.finish()
