"""Differential check of the composed Lean model `HashClient ∘ Client` (driver command `hashcall`, model
`lean/Pymc/Model/HashCall.lean`) against the real `pymemcache.client.hash.HashClient` (use_pooling=False) over a scripted
socket module.

Standalone (not part of `./check`):   python harness/hashcall_diff.py [n_histories] [seed]
Environment: VERIF_REPO (default /repo) = the tree whose pymemcache is imported.

A history is a list of single-key calls (the `_run_cmd` family), `get_many` / `gets_many`, `set_many` and `delete_many`
calls; every call carries its time, per key the routing key (a preference order of the servers, given to a deterministic
hasher) and a script (one per server for `get_many` / `set_many`, one per key for `delete_many`, which may contact the same
server several times): does `connect` fail, does `sendall` fail, and the `recv()` outcomes that arrive on the
connection of the server contacted.  The result of `set_many` — the list of failed keys — is compared *in order*: the
order in which the real code builds it is deterministic (keys without a client in the order of `values`, then batch by
batch in the order of first appearance of the server, inside a batch the order of the inner `Client.set_many`); the two
`list(set(values.keys()) - set(succeeded))` of `_safely_run_set_many`, whose order would depend on `set` iteration,
are unreachable (see `lean/Pymc/Model/HashCallMany.lean`).  Per call the two
sides are compared on: result token, server routed to, identity of the inner client object invoked (numbered in order of
creation), the bookkeeping state (`hasher.nodes`, `_failed_clients`, `_dead_clients`, `_last_dead_check_time`) and, for
every client object registered in `self.clients`, its identity, whether it has a socket and how many bytes are left
unread on it.

`run_python` / `driver_line` also understand broadcast items `("bcast", kind, args, scripts, now)` (`flush_all`, `quit`,
`close`, `disconnect_all`; model `lean/Pymc/Model/HashBroadcast.lean`); the histories of this file contain none — they are
generated and compared by `hashbroadcast_diff.py`.
"""
from common import FakeClock
import os
import random
import subprocess
import sys

HERE = os.path.dirname(os.path.abspath(__file__))
REPO = os.environ.get("VERIF_REPO", "/repo")
sys.dont_write_bytecode = True
sys.path.insert(0, REPO)
sys.path.insert(0, HERE)
DRIVER = os.path.join(HERE, "..", "lean", ".lake", "build", "bin", "pymc-driver")

import pooledcall_diff as P  # noqa: E402  (script generator, result tokens, scripted exceptions)

H = None
Client = None


def _bind():
    global H, Client
    P._bind()
    from pymemcache.client import hash as HH
    from pymemcache.client.base import Client as C
    H, Client = HH, C


class World:
    def __init__(self):
        self.scripts = None         # scripts of the public call in progress: a single one (every server), or {server: script}
        self.fed = set()            # servers whose recv() outcomes were already put on a pipe
        self.now = 0
        self.prefs = []             # routing key of the call in progress
        self.created = []           # inner client objects in order of creation
        self.invoked = []           # client objects whose socket was used / connected during the call
        self.routed = None
        self.safely = []            # (server, [client objects invoked]) per _safely_run_func of the call in progress
        self.per_key = None         # delete_many: the scripts of the `_run_cmd`s still to come, in order

    def script(self, server):
        if isinstance(self.scripts, dict) and "evs" not in self.scripts:
            return self.scripts.get(server, EMPTY)
        return self.scripts


EMPTY = {"cf": None, "sf": None, "evs": []}


class BookkeepingValueError(ValueError):
    """the `ValueError("No such node … to remove")` of `hasher.remove_node`: a ValueError for the HashClient, its own class
    (result token `exc:BookkeepingValueError`) for the comparison — an inner client may raise a plain ValueError too"""


class FakeSock:
    def __init__(self, world):
        self.w = world
        self.pipe = []
        self.is_closed = False

    def settimeout(self, t):
        pass

    def setsockopt(self, *a):
        pass

    def connect(self, addr):
        self.server = addr[1]
        sc = self.w.script(self.server)
        if sc["cf"] is not None:
            raise P.boom(sc["cf"])

    def sendall(self, data):
        sc = self.w.script(self.server)
        if self.server not in self.w.fed:
            self.pipe.extend(sc["evs"])
            self.w.fed.add(self.server)
        if sc["sf"] is not None:
            raise P.boom(sc["sf"])

    def recv(self, n):
        while True:
            if not self.pipe:
                return b""
            ev = self.pipe.pop(0)
            if ev[0] == "d":
                return ev[1]
            if ev[0] == "i":
                raise InterruptedError(4, "eintr")
            raise P.boom(ev[1])

    def close(self):
        self.is_closed = True


class FakeSocketModule:
    AF_UNIX = 1
    AF_INET = 2
    AF_UNSPEC = 0
    SOCK_STREAM = 1
    IPPROTO_TCP = 6
    TCP_NODELAY = 1
    timeout = __import__("socket").timeout
    error = OSError

    def __init__(self, world):
        self.w = world

    def socket(self, *a):
        return FakeSock(self.w)

    def getaddrinfo(self, host, port, *a):
        return [(2, 1, 6, "", (host, port))]


def make_hasher(world):
    class PrefHasher:
        """the routing key of the call in progress is a preference order: the first preferred server in rotation wins,
        else the first node (as `Failover.prefRoute`)"""

        def __init__(self):
            self.nodes = []

        def add_node(self, n):
            if n not in self.nodes:
                self.nodes.append(n)

        def remove_node(self, n):
            if n in self.nodes:
                self.nodes.remove(n)
            else:
                raise BookkeepingValueError("No such node %s to remove" % (n,))

        def get_node(self, key):
            if not self.nodes:
                world.routed = None
                return None
            for p in (key.prefs if world.prefs is None else world.prefs):
                if "h:%d" % p in self.nodes:
                    world.routed = p
                    return "h:%d" % p
            world.routed = int(self.nodes[0].split(":")[1])
            return self.nodes[0]
    return PrefHasher


KEYS = [b"k", b"key2", b"bad key"]


class KeyObj(bytes):
    """a `bytes` key that carries its routing key (get_many hands every key object to the hasher)"""

    def __new__(cls, b, prefs):
        o = super().__new__(cls, b)
        o.prefs = prefs
        return o


def gen_call(rng):
    """(python thunk, driver tokens, reply bytes owed when everything is fine) — the operations HashClient runs through _run_cmd"""
    k = rng.choice(KEYS + [b"k", b"key2"])
    kind = rng.choice(["get", "get", "gets", "gat", "gats", "set", "set_nr", "add", "cas", "delete", "incr", "decr", "touch", "set_badexp"])
    kt = "b:" + k.hex()
    if kind == "get":
        return (lambda c: c.get(k, "DEFAULT")), f"op=get k={kt}", rng.choice(
            [b"END\r\n", b"VALUE " + k + b" 0 2\r\nhi\r\nEND\r\n", b"ERROR\r\n", b"SERVER_ERROR x\r\n", b"garbage\r\n"])
    if kind == "gets":
        return (lambda c: c.gets(k, "DEFAULT", "CASDEFAULT")), f"op=gets k={kt}", rng.choice(
            [b"END\r\n", b"VALUE " + k + b" 0 2 77\r\nhi\r\nEND\r\n", b"ERROR\r\n"])
    if kind == "gat":
        return (lambda c: c.gat(k, 5, "DEFAULT")), f"op=gat k={kt} e=i:5", rng.choice(
            [b"END\r\n", b"VALUE " + k + b" 0 2\r\nhi\r\nEND\r\n", b"CLIENT_ERROR y\r\n"])
    if kind == "gats":
        return (lambda c: c.gats(k, 5, "DEFAULT", "CASDEFAULT")), f"op=gats k={kt} e=i:5", rng.choice(
            [b"END\r\n", b"VALUE " + k + b" 0 2 9\r\nhi\r\nEND\r\n", b"VALUE " + k + b" 0 2\r\nhi\r\nEND\r\n"])
    if kind == "set":
        return (lambda c: c.set(k, b"v", noreply=False)), f"op=set k={kt} v=b:76 e=i:0 nr=0 fl=n cas=n", rng.choice(
            [b"STORED\r\n", b"NOT_STORED\r\n", b"ERROR\r\n", b"SERVER_ERROR out of memory\r\n", b"what\r\n"])
    if kind == "set_badexp":
        return (lambda c: c.set(k, b"v", expire="soon", noreply=False)), f"op=set k={kt} v=b:76 e=x nr=0 fl=n cas=n", b""
    if kind == "set_nr":
        return (lambda c: c.set(k, b"v", noreply=True)), f"op=set k={kt} v=b:76 e=i:0 nr=1 fl=n cas=n", b""
    if kind == "add":
        return (lambda c: c.add(k, b"v", noreply=False)), f"op=add k={kt} v=b:76 e=i:0 nr=0 fl=n cas=n", rng.choice(
            [b"STORED\r\n", b"NOT_STORED\r\n"])
    if kind == "cas":
        return (lambda c: c.cas(k, b"v", b"12", noreply=False)), f"op=cas k={kt} v=b:76 e=i:0 nr=0 fl=n cas=b:3132", rng.choice(
            [b"STORED\r\n", b"EXISTS\r\n", b"NOT_FOUND\r\n", b"NOT_STORED\r\n"])
    if kind == "delete":
        return (lambda c: c.delete(k, noreply=False)), f"op=delete k={kt} nr=0", rng.choice(
            [b"DELETED\r\n", b"NOT_FOUND\r\n", b"ERROR\r\n"])
    if kind == "incr":
        return (lambda c: c.incr(k, 1, noreply=False)), f"op=incr k={kt} d=i:1 nr=0", rng.choice(
            [b"5\r\n", b"NOT_FOUND\r\n", b"abc\r\n", b"CLIENT_ERROR non-numeric\r\n"])
    if kind == "decr":
        return (lambda c: c.decr(k, 1, noreply=True)), f"op=decr k={kt} d=i:1 nr=1", b""
    return (lambda c: c.touch(k, 5, noreply=False)), f"op=touch k={kt} e=i:5 nr=0", rng.choice(
        [b"TOUCHED\r\n", b"NOT_FOUND\r\n"])


def many_token(fn, gets):
    try:
        r = fn()
    except BaseException:  # noqa: BLE001
        return P.res_token(fn_raise(sys.exc_info()[1]))
    if gets and isinstance(r, dict) and all(isinstance(v, tuple) for v in r.values()):
        def hx_(x):
            return x.hex() if isinstance(x, (bytes, bytearray)) else "other:" + repr(x)[:30].replace(" ", "_")
        return "casdict:{" + ";".join(sorted("b:" + hx_(k) + "=" + "/".join(hx_(x) for x in v) for k, v in r.items())) + "}"
    return P.res_token(lambda: r)


def fn_raise(e):
    def f():
        raise e
    return f


def gen_many(rng, n):
    """a get_many / gets_many call: keys with their routing keys, one script per server"""
    gets = rng.random() < 0.3
    keys = [(rng.sample(range(n), rng.randint(0, n)), b"bad key" if rng.random() < 0.06 else rng.choice([b"k", b"key2", b"z"]))
            for _ in range(rng.randint(0, 5))]
    scripts = {}
    for sv in range(n):
        k = rng.choice([kk for _p, kk in keys]) if keys and rng.random() < 0.85 else rng.choice([b"k", b"key2", b"z"])
        cas = b" 77" if gets else b""
        reply = rng.choice([b"END\r\n", b"END\r\n", b"VALUE " + k + b" 0 2" + cas + b"\r\nhi\r\nEND\r\n",
                            b"VALUE " + k + b" 0 2" + cas + b"\r\nhi\r\nVALUE z 0 1" + cas + b"\r\nq\r\nEND\r\n",
                            b"ERROR\r\n", b"SERVER_ERROR x\r\n", b"VALUE " + k + b" 0 2\r\nhi\r\nEND\r\n"])
        scripts[sv] = P.gen_script(rng, reply)
    return gets, keys, scripts


def gen_set_many(rng, n):
    """a set_many call: the dict of values (key objects carrying their routing keys), the arguments handed through, one
    script per server (a number of reply lines that need not match the size of the batch)"""
    values = {}
    for _ in range(rng.randint(0, 5)):
        k = b"bad key" if rng.random() < 0.05 else rng.choice([b"k", b"key2", b"z", b"y"])
        v = "\u00e9" if rng.random() < 0.04 else rng.choice([b"v", b"v", b"val2", "txt", 12])
        values[KeyObj(k, rng.sample(range(n), rng.randint(0, n)))] = v
    expire = "soon" if rng.random() < 0.04 else 0
    noreply = rng.choice([None, None, False, True])
    flags = rng.choice([None, None, 5])
    scripts = {}
    for sv in range(n):
        nlines = rng.choice([len(values), len(values), 1, 2, rng.randint(0, len(values) + 1)])
        reply = b"".join(rng.choice([b"STORED\r\n", b"STORED\r\n", b"STORED\r\n", b"NOT_STORED\r\n", b"ERROR\r\n",
                                     b"SERVER_ERROR out of memory\r\n", b"what\r\n"]) for _ in range(nlines))
        if noreply is True and rng.random() < 0.8:
            reply = b""
        scripts[sv] = P.gen_script(rng, reply)
    return values, expire, noreply, flags, scripts


def gen_delete_many(rng, n):
    """a delete_many call: key objects carrying their routing keys, one script per key"""
    keys, scripts = [], []
    for _ in range(rng.randint(0, 4)):
        k = b"bad key" if rng.random() < 0.06 else rng.choice([b"k", b"key2", b"z"])
        keys.append(KeyObj(k, rng.sample(range(n), rng.randint(0, n))))
        scripts.append(P.gen_script(rng, rng.choice([b"DELETED\r\n", b"DELETED\r\n", b"NOT_FOUND\r\n", b"ERROR\r\n",
                                                     b"SERVER_ERROR x\r\n", b"DELETED\r\nEXTRA\r\n"])))
    noreply = rng.choice([None, False, False, True])
    return keys, noreply, scripts


def val_token(v):
    if isinstance(v, bytes):
        return "b:" + v.hex()
    if isinstance(v, str):
        return "t:" + ",".join(str(ord(ch)) for ch in v)
    return "i:%d" % v


def gen_history(rng):
    n = rng.choice([1, 2, 2, 3])
    ra = rng.choice([0, 1, 2])
    rt = rng.choice([0, 1, 3])
    dt = rt + rng.choice([1, 2, 6])
    ign = rng.random() < 0.5
    pdown = rng.choice([0.0, 0.2, 0.5, 0.9])
    t0 = rng.choice([0, 0, 3])
    t = t0
    history = []
    for _j in range(rng.randint(1, 12)):
        t += rng.choice([0, 0, 1, 1, rt, rt + 1, dt, dt + 1, 2 * dt + 1])
        if rng.random() < 0.25:
            gets, keys, scripts = gen_many(rng, n)
            for sv in scripts:
                if rng.random() < pdown:
                    scripts[sv]["cf"], scripts[sv]["sf"] = rng.choice([61, 61, 13]), rng.choice([32, 32, 54])
            history.append(("many", gets, keys, scripts, t))
            continue
        r = rng.random()
        if r < 0.2:
            values, expire, noreply, flags, scripts = gen_set_many(rng, n)
            for sv in scripts:
                if rng.random() < pdown:
                    scripts[sv]["cf"], scripts[sv]["sf"] = rng.choice([61, 61, 13]), rng.choice([32, 32, 54])
            history.append(("setmany", values, expire, noreply, flags, scripts, t))
            continue
        if r < 0.28:
            keys, noreply, scripts = gen_delete_many(rng, n)
            for sc in scripts:
                if rng.random() < pdown:
                    sc["cf"], sc["sf"] = rng.choice([61, 61, 13]), rng.choice([32, 32, 54])
            history.append(("delmany", keys, noreply, scripts, t))
            continue
        thunk, tok, reply = gen_call(rng)
        sc = P.gen_script(rng, reply)
        if rng.random() < pdown:
            # the server this call reaches is down: connecting is refused, sending on an old socket fails
            sc["cf"], sc["sf"] = rng.choice([61, 61, 13]), rng.choice([32, 32, 54])
        prefs = rng.sample(range(n), rng.randint(0, n))
        history.append((thunk, tok, sc, t, prefs))
    return (n, ra, rt, dt, ign, t0), history


def state(hc):
    nodes = "[" + ",".join(x.split(":")[1] for x in hc.hasher.nodes) + "]"
    failed = "[" + ",".join("%d:%d@%d" % (s[1], m["attempts"], m["failed_time"]) for s, m in hc._failed_clients.items()) + "]"
    dead = "[" + ",".join("%d@%d" % (s[1], t) for s, t in hc._dead_clients.items()) + "]"
    return "nodes=%s failed=%s dead=%s ldc=%d" % (nodes, failed, dead, hc._last_dead_check_time)


def run_python(params, history, routed_out=None):
    """`routed_out` (a list): per call the server the hasher routed the last key to (`None`: nothing in rotation,
    "unrouted": the hasher was not asked)"""
    n, ra, rt, dt, ign, t0 = params
    w = World()

    FakeTime = FakeClock(lambda: w.now)

    class CountingClient(Client):
        def __init__(self, *a, **kw):
            super().__init__(*a, **kw)
            w.created.append(self)

        def _connect(self):
            w.invoked.append(self)
            return super()._connect()

    def wrap(name):
        orig = getattr(Client, name)

        def f(self, *a, **kw):
            w.invoked.append(self)
            if self.sock is not None and self.sock.server not in w.fed:
                # what arrives during the call arrives whether or not the call gets as far as sending (an inner call may
                # fail its argument checks first): on an open socket it is in the pipe from the start of the inner call
                self.sock.pipe.extend(w.script(self.sock.server)["evs"])
                w.fed.add(self.sock.server)
            return orig(self, *a, **kw)
        return f
    for name in ("get", "gets", "gat", "gats", "set", "add", "replace", "append", "prepend", "cas", "delete", "incr", "decr", "touch",
                 "get_many", "gets_many", "set_many", "flush_all", "quit"):
        setattr(CountingClient, name, wrap(name))

    def close(self, _orig=Client.close):
        # `close` receives nothing; called by a broadcast it is the function invoked on the client object (inside another method
        # the object is already recorded)
        w.invoked.append(self)
        return _orig(self)
    CountingClient.close = close

    class HC(H.HashClient):
        client_class = CountingClient

        def _safely_run_func(self, client, func, default_val, *a, **kw):
            del w.invoked[:]
            entry = [client.server[1], None]
            w.safely.append(entry)
            try:
                return super()._safely_run_func(client, func, default_val, *a, **kw)
            finally:
                entry[1] = w.invoked[0] if w.invoked else None

        def _safely_run_set_many(self, client, values, *a, **kw):
            del w.invoked[:]
            entry = [client.server[1], None]
            w.safely.append(entry)
            try:
                return super()._safely_run_set_many(client, values, *a, **kw)
            finally:
                entry[1] = w.invoked[0] if w.invoked else None

        def _run_cmd(self, cmd, key, default_val, *a, **kw):
            if w.per_key is not None:
                # delete_many: every `_run_cmd` of the loop has its own script
                w.scripts, w.fed = w.per_key.pop(0), set()
            return super()._run_cmd(cmd, key, default_val, *a, **kw)
    saved = H.time
    H.time = FakeTime
    try:
        w.now = t0
        hc = HC([("h", i) for i in range(n)], hasher=make_hasher(w), retry_attempts=ra, retry_timeout=rt, dead_timeout=dt,
                ignore_exc=ign, socket_module=FakeSocketModule(w), default_noreply=False)
        out = []
        for item in history:
            del w.invoked[:]
            del w.safely[:]
            w.per_key = None
            if item[0] == "setmany":
                _m, values, expire, noreply, flags, scripts, now = item
                w.scripts, w.fed, w.now, w.prefs = scripts, set(), now, None
                tok = P.res_token(lambda: hc.set_many(dict(values), expire, noreply, flags))
            elif item[0] == "delmany":
                _m, keys, noreply, scripts, now = item
                w.scripts, w.fed, w.now, w.prefs = EMPTY, set(), now, None
                w.per_key = list(scripts)
                tok = P.res_token(lambda: hc.delete_many(list(keys), noreply=noreply))
                w.per_key = None
            elif item[0] == "many":
                _m, gets, keys, scripts, now = item
                w.scripts, w.fed, w.now = scripts, set(), now
                prefs_of = {}
                ks = []
                for j, (prefs, k) in enumerate(keys):
                    # the hasher sees the key object: make every key object distinct so that it can carry its routing key
                    ko = KeyObj(k, prefs)
                    ks.append(ko)
                w.prefs = None
                tok = many_token(lambda: (hc.gets_many(ks) if gets else hc.get_many(ks)), gets)
            elif item[0] == "bcast":
                # a broadcast (`lean/Pymc/Model/HashBroadcast.lean`): one script per server (`close` receives nothing)
                _m, kind, args, scripts, now = item
                w.scripts, w.fed, w.now, w.prefs = dict(scripts), set(), now, None
                if kind == "flush_all":
                    tok = P.res_token(lambda: hc.flush_all(*args))
                elif kind == "quit":
                    tok = P.res_token(lambda: hc.quit())
                else:
                    tok = P.res_token(lambda: (hc.close if kind == "close" else hc.disconnect_all)())
            else:
                (thunk, _tok, sc, now, prefs) = item
                w.scripts, w.fed, w.now, w.prefs, w.routed = sc, set(), now, prefs, "unrouted"
                tok = P.res_token(lambda: thunk(hc))
            if routed_out is not None:
                routed_out.append(w.routed)
            ids = {id(c): i for i, c in enumerate(w.created)}
            plus = lambda l: "+".join(l) if l else "-"  # noqa: E731
            srv = plus([str(sv) for sv, _c in w.safely])
            inv = plus(["-" if c is None else str(ids[id(c)]) for _sv, c in w.safely])
            clients = []
            for key, c in hc.clients.items():
                unread = 0
                if c.sock is not None:
                    unread = sum(len(ev[1]) for ev in c.sock.pipe if ev[0] == "d")
                clients.append("%s:%d:%d:%d" % (key.split(":")[1], ids[id(c)], 1 if c.sock is not None else 0, unread))
            out.append(f"res={tok} srv={srv} client={inv} {state(hc)} clients=[{','.join(clients)}]")
    finally:
        H.time = saved
    return out


def driver_line(params, history):
    n, ra, rt, dt, ign, t0 = params
    segs = []
    rks = lambda prefs: ",".join(map(str, prefs)) if prefs else "-"  # noqa: E731
    for item in history:
        if item[0] == "many":
            _m, gets, keys, scripts, now = item
            kstr = "|".join(f"{rks(prefs)}~b:{k.hex()}" for prefs, k in keys) if keys else "-"
            sct = " ".join(" ".join(f"s{sv}.{tk}" for tk in P.script_tokens(sc).split()) for sv, sc in sorted(scripts.items()))
            segs.append(f"op=hget_many gets={int(gets)} t={now} keys={kstr} {sct}".strip())
            continue
        ob = lambda x: "n" if x is None else str(int(x))  # noqa: E731
        if item[0] == "setmany":
            _m, values, expire, noreply, flags, scripts, now = item
            istr = "|".join(f"{rks(k.prefs)}~b:{bytes(k).hex()}~{val_token(v)}" for k, v in values.items()) if values else "-"
            sct = " ".join(" ".join(f"s{sv}.{tk}" for tk in P.script_tokens(sc).split()) for sv, sc in sorted(scripts.items()))
            e = "x" if expire == "soon" else "i:%d" % expire
            segs.append(f"op=hset_many t={now} items={istr} e={e} nr={ob(noreply)} fl={'n' if flags is None else flags} {sct}".strip())
            continue
        if item[0] == "delmany":
            _m, keys, noreply, scripts, now = item
            kstr = "|".join(f"{rks(k.prefs)}~b:{bytes(k).hex()}" for k in keys) if keys else "-"
            sct = " ".join(" ".join(f"k{j}.{tk}" for tk in P.script_tokens(sc).split()) for j, sc in enumerate(scripts))
            segs.append(f"op=hdelete_many t={now} nr={ob(noreply)} keys={kstr} {sct}".strip())
            continue
        if item[0] == "bcast":
            _m, kind, args, scripts, now = item
            sct = " ".join(" ".join(f"s{sv}.{tk}" for tk in P.script_tokens(sc).split()) for sv, sc in sorted(scripts.items()))
            if kind == "flush_all":
                delay = args[0] if len(args) > 0 else 0
                nr = args[1] if len(args) > 1 else None
                d = "x" if not isinstance(delay, int) else "i:%d" % delay
                segs.append(f"op=hflush_all t={now} d={d} nr={ob(nr)} {sct}".strip())
            elif kind == "quit":
                segs.append(f"op=hquit t={now} {sct}".strip())
            else:
                segs.append(f"op=hclose t={now}")
            continue
        (_th, tok, sc, now, prefs) = item
        rk = rks(prefs)
        segs.append(f"rk={rk} t={now} {tok} {P.script_tokens(sc)}".strip())
    return f"hashcall cfg=000{1 if ign else 0}: fo={ra},{rt},{dt} n={n} t0={t0} " + " | ".join(segs)


def compare(lines, outs, expect):
    bad, ncalls = [], 0
    for line, out, py in zip(lines, outs, expect):
        ncalls += len(py)
        if not out.startswith("ok "):
            bad.append({"line": line[:600], "impl": py[:3], "model": out[:300]})
            continue
        lean = [o.rsplit(" cons=", 1)[0] for o in out[3:].split(" | ")]
        if py != lean:
            k = next((i for i, (a, b) in enumerate(zip(py, lean)) if a != b), min(len(py), len(lean)))
            bad.append({"line": line[:900], "first_difference_at_call": k, "impl": py[max(0, k - 1):k + 1], "model": lean[max(0, k - 1):k + 1]})
    return ncalls, bad


def differential(n, rng, batch):
    """n random histories on the real HashClient vs the composed Lean model; `batch` = driver batch function.
    Returns (number of calls compared, list of mismatch dicts)."""
    _bind()
    lines, expect = [], []
    for _ in range(n):
        params, history = gen_history(rng)
        expect.append(run_python(params, history))
        lines.append(driver_line(params, history))
    outs = batch(lines)
    return compare(lines, outs, expect)


def main():
    n = int(sys.argv[1]) if len(sys.argv) > 1 else 300
    seed = int(sys.argv[2]) if len(sys.argv) > 2 else 1
    rng = random.Random(seed)

    def batch(lines):
        p = subprocess.run([DRIVER], input="\n".join(lines) + "\n", stdout=subprocess.PIPE, text=True, timeout=1200)
        outs = p.stdout.strip("\n").split("\n")
        assert len(outs) == len(lines), (len(outs), len(lines))
        return outs
    ncalls, bad = differential(n, rng, batch)
    for b in bad[:10]:
        print("MISMATCH")
        for k, v in b.items():
            print("   ", k, ":", v)
    print(f"hashcall_diff: histories={n} calls={ncalls} mismatches={len(bad)}")
    sys.exit(1 if bad else 0)


if __name__ == "__main__":
    main()
