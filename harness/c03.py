"""C03 — reply parsing does not depend on how the byte stream is split.
(a) metamorphic on the real client: every segmentation of a scenario reply must give the one-piece result;
(b) reader-level correspondence: `_readline/_readvalue/_readsegment` vs the Lean model under the same schedule,
    and vs the Lean flat specification (first CR LF / size+2 / first token occurrence)."""
import itertools

from common import Ctx, hx, import_repo
from fakesock import FakeSocketModule, World

AWS_TOKEN = b"\n\r\nEND\r\n"


def scenarios():
    S = []

    def add(name, op, reply):
        S.append((name, op, reply))
    v = lambda k, d, fl=0, cas=None: b"VALUE " + k + b" %d %d" % (fl, len(d)) + (b" %d" % cas if cas is not None else b"") + b"\r\n" + d + b"\r\n"
    add("get-hit", ("get", "k"), v(b"k", b"hello") + b"END\r\n")
    add("get-miss", ("get", "k"), b"END\r\n")
    add("get-empty-value", ("get", "k"), v(b"k", b"") + b"END\r\n")
    add("get-1byte", ("get", "k"), v(b"k", b"\r") + b"END\r\n")
    add("get-crlf-value", ("get", "k"), v(b"k", b"a\r\nb") + b"END\r\n")
    add("get-END-value", ("get", "k"), v(b"k", b"END\r\n") + b"END\r\n")
    add("get-VALUE-value", ("get", "k"), v(b"k", b"VALUE k 0 1\r\nx\r\nEND\r\n") + b"END\r\n")
    add("get-cr-end", ("get", "k"), v(b"k", b"abc\r") + b"END\r\n")
    add("get-lf-start", ("get", "k"), v(b"k", b"\nabc") + b"END\r\n")
    add("get_many-2", ("get_many", ["a", "b", "c"]), v(b"a", b"1") + v(b"c", b"\r\n\r\n") + b"END\r\n")
    add("gets-hit", ("gets", "k"), v(b"k", b"xy", 5, 123) + b"END\r\n")
    add("gets_many", ("gets_many", ["a", "b"]), v(b"a", b"", 0, 1) + v(b"b", b"END", 0, 22) + b"END\r\n")
    add("gat-hit", ("gat", "k"), v(b"k", b"v") + b"END\r\n")
    add("gats-hit", ("gats", "k"), v(b"k", b"v", 0, 9) + b"END\r\n")
    add("stats", ("stats",), b"STAT pid 1\r\nSTAT version 1.6\r\nSTAT x\r\nSTAT a b c\r\nEND\r\n")
    add("stats-items", ("stats", "cachedump", "1", "1"), b"ITEM k [1 b; 0 s]\r\nEND\r\n")
    for line in (b"STORED", b"NOT_STORED"):
        add("set-" + line.decode(), ("set", "k", b"v"), line + b"\r\n")
    for line in (b"STORED", b"EXISTS", b"NOT_FOUND"):
        add("cas-" + line.decode(), ("cas", "k", b"v", b"1"), line + b"\r\n")
    add("set_many", ("set_many", {"a": b"1", "b": b"2", "c": b"3"}), b"STORED\r\nNOT_STORED\r\nSTORED\r\n")
    add("delete-yes", ("delete", "k"), b"DELETED\r\n")
    add("delete-no", ("delete", "k"), b"NOT_FOUND\r\n")
    add("delete_many", ("delete_many", ["a", "b"]), b"DELETED\r\nNOT_FOUND\r\n")
    add("incr", ("incr", "k", 1), b"42\r\n")
    add("incr-nf", ("incr", "k", 1), b"NOT_FOUND\r\n")
    add("decr", ("decr", "k", 1), b"0\r\n")
    add("touch", ("touch", "k"), b"TOUCHED\r\n")
    add("version", ("version",), b"VERSION 1.6.21\r\n")
    add("flush_all", ("flush_all",), b"OK\r\n")
    add("error", ("get", "k"), b"ERROR\r\n")
    add("client-error", ("set", "k", b"v"), b"CLIENT_ERROR bad data chunk\r\n")
    add("server-error", ("incr", "k", 1), b"SERVER_ERROR out of memory\r\n")
    add("garbage", ("delete", "k"), b"\rWHAT\r\r\n")
    add("raw-crlf", ("raw", b"verbosity 1", b"\r\n"), b"OK\r\n")
    add("raw-1", ("raw", b"x", b"\n"), b"abc\ndef")
    add("raw-2tok-inside", ("raw", b"x", b"\r\n"), b"a\rb\nc\r\r\nrest")
    add("raw-aws", ("raw", b"config get cluster", AWS_TOKEN),
        b"CONFIG cluster 0 47\r\n1\nh1|10.0.0.1|11211 h2|10.0.0.2|11211\n\r\nEND\r\n")
    # long reply LINES (a 200-byte key in a VALUE header, a long STAT / VERSION / error line): delivered byte by byte they take many recv() calls
    lk = b"K" * 200
    add("get-long-key", ("get", lk.decode()), v(lk, b"xy") + b"END\r\n")
    add("gets_many-long-keys", ("gets_many", [lk.decode(), (b"L" * 120).decode()]), v(lk, b"1", 0, 7) + v(b"L" * 120, b"", 5, 8) + b"END\r\n")
    add("stats-long-line", ("stats",), b"STAT version 1.6.21-4.amzn2023.0.1 (ElastiCache build 7, long vendor string)\r\nSTAT pid 1\r\nEND\r\n")
    add("version-long", ("version",), b"VERSION 1.6.21-4.amzn2023.0.1 (ElastiCache build 7) extra words to make it long\r\n")
    add("server-error-long", ("set", "k", b"v"), b"SERVER_ERROR out of memory storing object with a long explanation text here\r\n")
    # protocol keywords inside payloads: they are data, wherever a piece happens to start
    words = b"SERVER_ERROR out of memory\r\nCLIENT_ERROR bad\r\nERROR\r\nEND"
    add("raw-error-words", ("raw", b"get lastlog", b"END\r\n"), b"VALUE lastlog 0 %d\r\n" % len(words[:-3]) + words[:-3] + b"END\r\n")
    add("raw-error-words-2", ("raw", b"x", b"\n\r\nEND\r\n"), b"ERROR\r\nSERVER_ERROR x\r\nok\n\r\nEND\r\n")
    add("get-error-words-value", ("get", "k"), v(b"k", b"x\r\nSERVER_ERROR y\r\nERROR\r\nCLIENT_ERROR z\r\n") + b"END\r\n")
    add("raw-aws-decoy", ("raw", b"config get cluster", AWS_TOKEN), b"CONFIG\n\r\nEN\n\r\nEND\r\n")
    # a reply that does NOT contain the caller's end token (the server answered with an error line): whatever the call does with it - the
    # unchanged reader keeps waiting - it does the same for every segmentation
    for ename, eline in (("error", b"ERROR\r\n"), ("client-error", b"CLIENT_ERROR bad command line format\r\n"), ("server-error", b"SERVER_ERROR out of memory\r\n")):
        add(f"raw-endtoken-{ename}", ("raw", b"lru_crawler metadump all", b"END\r\n"), eline)
        add(f"raw-aws-{ename}", ("raw", b"config get cluster", AWS_TOKEN), eline)
    for total in (4096, 8192, 12288, 8192 + 100):
        for tok in (b"\r\n", AWS_TOKEN):
            body = bytes(65 + (i * 11) % 26 for i in range(total - len(tok)))
            add(f"raw-long-{total}-{len(tok)}", ("raw", b"big", tok), body + tok)
    for size in (4094, 4095, 4096, 4097, 4098, 8190, 8192, 8194):
        d = bytes((i * 7 + 13) % 256 for i in range(size))
        add(f"get-{size}", ("get", "k"), v(b"k", d) + b"END\r\n")
    # replies that take MANY receive calls whatever the piece size: more than a thousand pieces of the full receive size (a dump of several
    # megabytes, one big value), more than a thousand lines / values in one reply (each of them also delivered byte by byte below)
    hn = 4096 * 1100 + 50
    hbody = bytes(97 + (i * 7) % 26 for i in range(4096)) * 1100 + b"z" * 43
    add("huge-raw-dump", ("raw", b"lru_crawler metadump all", b"END\r\n"), hbody + b"\r\nEND\r\n")
    add("huge-get-value", ("get", "k"), v(b"k", hbody) + b"END\r\n")
    add("many-stats-lines", ("stats",), b"".join(b"STAT s%d %d\r\n" % (i, i) for i in range(1300)) + b"END\r\n")
    many = ["k%d" % i for i in range(1200)]
    add("many-values", ("get_many", many), b"".join(v(k_.encode(), b"v") for k_ in many) + b"END\r\n")
    add("many-raw-lines", ("raw", b"config get cluster", AWS_TOKEN),
        b"CONFIG cluster 0 9999\r\n12\n" + b" ".join(b"node%d.cache.example.com|10.0.%d.%d|11211" % (i, i // 250, i % 250) for i in range(60)) + b"\n\r\nEND\r\n")
    return S


JUNK_AFTER_UNIT = {"raw-1", "raw-2tok-inside", "garbage", "error", "client-error", "server-error", "server-error-long"}


def call(client, op):
    name = op[0]
    if name == "raw":
        return client.raw_command(op[1], op[2])
    if name in ("set", "cas", "set_many", "delete", "delete_many", "touch", "flush_all", "incr", "decr"):
        return getattr(client, name)(*op[1:], noreply=False)
    return getattr(client, name)(*op[1:])


def run(Client, op, pieces):
    world = World()
    world.server = lambda conn, data: pieces
    world.tag = 0
    c = Client(("h", 1), socket_module=FakeSocketModule(world))
    try:
        r = ("ok", call(c, op))
    except Exception as e:
        r = ("exc", type(e).__name__, tuple(map(repr, e.args)))
    extra = (len(world.would_block), sum(world.leftover(cn) for cn in world.open_conns()))
    return r, extra


def cuts_to_pieces(reply, cuts, eintr_at=()):
    out = []
    prev = 0
    for i, c in enumerate(list(cuts) + [len(reply)]):
        for _ in range(list(eintr_at).count(i)):      # a gap listed k times = a burst of k interrupted recv() calls
            out.append(("eintr",))
        out.append(reply[prev:c])
        prev = c
    return out


def segmentations(ctx, n, big):
    """cut-position sets for a reply of n bytes"""
    pos = list(range(1, n))
    if n <= 12:
        for r in range(0, n):
            yield from itertools.combinations(pos, r)
        return
    yield ()
    if n > 100000:
        yield tuple(range(4096, n, 4096))
        yield tuple(range(4095, n, 4096))
        yield tuple(range(1, n, 1000))
        return
    if big:
        yield tuple(pos)                   # all single bytes: as many receive calls as the reply has bytes
        yield tuple(range(2, n, 3))
        al = [p for p in (4096, 8192) if p < n]
        near = sorted({q for p in al for q in range(p - 3, p + 4) if 0 < q < n} | {1, 2, n - 1, n - 2, n - 7, n - 8})
        near = [q for q in near if 0 < q < n]
        for c in near:
            yield (c,)
        for c in itertools.combinations(near, 2):
            yield c
        yield tuple(range(4096, n, 4096))
        yield tuple(range(1, n, 1000))
        # the LAST delivered piece has exactly the receive size
        for lastn in (4096, 8192):
            if n - lastn > 0:
                yield (n - lastn,)
                if n - lastn > 100:
                    yield (100, n - lastn)
            if n - lastn - 4096 > 0:
                yield (n - lastn - 4096, n - lastn)
        return
    for c in pos:
        yield (c,)
    yield tuple(pos)                       # all single bytes
    if n <= 60:
        yield from itertools.combinations(pos, 2)
        if ctx.thorough and n <= 40:
            yield from itertools.combinations(pos, 3)
        elif ctx.thorough:
            for _ in range(3000):
                yield tuple(sorted(ctx.rng.sample(pos, 3)))
    else:
        for _ in range(4000 if ctx.thorough else 600):
            yield tuple(sorted(ctx.rng.sample(pos, ctx.rng.choice([2, 3, 5]))))


class SchedSock:
    def __init__(self, evs):
        self.evs = list(evs)
        self.consumed = 0

    def recv(self, n):
        import errno
        if not self.evs:
            return b""
        ev = self.evs[0]
        if ev == "i":
            self.evs.pop(0)
            raise OSError(errno.EINTR, "eintr")
        if isinstance(ev, tuple):
            self.evs.pop(0)
            raise OSError(ev[1], "x")
        piece, rest = ev[:n], ev[n:]
        if rest:
            self.evs[0] = rest
        else:
            self.evs.pop(0)
        return piece

    def remaining(self):
        return b"".join(e for e in self.evs if isinstance(e, bytes))


def reader_level(ctx, base):
    """real readers vs Lean model + Lean flat spec, random schedules"""
    from pymemcache.exceptions import MemcacheUnexpectedCloseError
    rng = ctx.rng
    lines, metas = [], []
    N = 6000 if ctx.thorough else 1200
    alpha = [13, 10, 13, 10, 65, 66, 69, 78, 68, 32, 0]
    for i in range(N):
        which = ("line", "value", "segment")[i % 3]
        n = rng.randrange(0, 24)
        stream = bytes(rng.choice(alpha) for _ in range(n))
        tok = rng.choice([b"\r\n", b"\n", b"END", AWS_TOKEN, b"\r\n\r\n", b"AB"])
        size = rng.randrange(0, 12)
        if rng.random() < .7:
            if which == "line":
                stream += b"\r\n" + bytes(rng.choice(alpha) for _ in range(rng.randrange(0, 5)))
            elif which == "segment":
                stream += tok + bytes(rng.choice(alpha) for _ in range(rng.randrange(0, 5)))
            else:
                stream += bytes(rng.choice(alpha) for _ in range(size + 2))
        k = rng.randrange(0, len(stream) + 1)
        buf, tail = stream[:k], stream[k:]
        evs = []
        while tail:
            c = rng.randrange(1, min(len(tail), 5) + 1)
            evs.append(tail[:c])
            tail = tail[c:]
            if rng.random() < .15:
                evs.append("i")
        fault = None
        if rng.random() < .1 and evs:
            j = rng.randrange(0, len(evs) + 1)
            evs.insert(j, ("x", 5))
        sock = SchedSock(evs)
        try:
            if which == "line":
                rest, item = base._readline(sock, buf)
            elif which == "value":
                rest, item = base._readvalue(sock, buf, size)
            else:
                rest, item = base._readsegment(sock, buf, tok)
            real = f"ok item={hx(item)} rest={hx(rest + sock.remaining())}"
        except MemcacheUnexpectedCloseError:
            real = "err UnexpectedClose"
        except OSError as e:
            real = f"err Sock{e.errno}"
        except Exception as e:
            real = "err " + type(e).__name__
        evtoks = " ".join("ev=i" if e == "i" else f"ev=x:{e[1]}" if isinstance(e, tuple) else "ev=d:" + hx(e) for e in evs)
        line = f"reader r={which} buf={hx(buf)} size={size} tok={hx(tok)} {evtoks}"
        lines.append(line)
        case = {"reader": which, "buf": hx(buf), "events": [e if not isinstance(e, bytes) else hx(e) for e in evs], "size": size, "tok": hx(tok), "impl": real}
        metas.append((case, real))
        ctx.case(("reader", which, buf, tuple(evs), size, tok), nontrivial=len(evs) >= 2, sample=case if i in (4, 5, 6) else None)
        ctx.count("reader:" + which)
        # flat spec (monitor) for fault-free schedules
        if not any(isinstance(e, tuple) for e in evs):
            if which == "line":
                p = stream.find(b"\r\n")
                want = None if p < 0 else (stream[:p], stream[p + 2:])
            elif which == "value":
                want = None if len(stream) < size + 2 else (stream[:size], stream[size + 2:])
            else:
                p = stream.find(tok)
                want = None if p < 0 else (stream[:p], stream[p + len(tok):])
            wants = "err UnexpectedClose" if want is None else f"ok item={hx(want[0])} rest={hx(want[1])}"
            if real != wants:
                tags = ["reader:" + which]
                ctx.violation(f"_read{which} result depends on the delivery schedule (differs from the flat split of the stream)",
                              dict(case, flat=wants), tags=tags)
    if ctx.lean.build_ok:
        for (case, real), m in zip(metas, ctx.driver.batch(lines)):
            if m != real:
                ctx.disagreement("Lean reader model differs from the implementation", dict(case, model=m),
                                 theorem="C03_read%s_flat" % case["reader"])


def search(ctx):
    """after a broken correspondence: all segmentations of every short scenario, all 1/2-cuts of the others"""
    return None


def main(argv):
    ctx = Ctx("C03", argv)
    ctx.prepare_lean()
    import_repo()
    import pymemcache.client.base as base
    Client = base.Client
    ctx.rule = ("scenario corpus (get/gets/gat/gats single+multi, values containing CRLF/END/VALUE, sizes 0,1,4094..4098,8190..8194, stats, every store/"
                "delete/incr/touch/version/flush line, error lines, raw_command with 1/2/4/7-byte tokens) x segmentations (all 2^(n-1) for n<=12; "
                "all 1- and 2-cuts and all-single-byte for n<=60, 3-cuts in thorough; 4096-aligned cuts for long replies) x EINTR in gaps; "
                "reader-level random schedules vs Lean model and flat spec; non-trivial = distinct (scenario, segmentation) with >= 2 pieces")
    for name, op, reply in scenarios():
        one, extra1 = run(Client, op, [reply])
        n = len(reply)
        big = n > 1000
        cnt = 0
        for cuts in segmentations(ctx, n, big):
            variants = [()]
            if cuts and (cnt % 5 == 0 or len(cuts) == 1):
                variants.append(tuple(range(1, len(cuts) + 1)))     # EINTR in every gap
                variants.append((ctx.rng.randrange(0, len(cuts) + 1),))
            if (cuts and cnt % 7 == 0) or cnt == 0:
                g = ctx.rng.randrange(0, len(cuts) + 1)
                variants.append((g, g))                              # bursts: several interrupted recv() calls in a row in one gap
                variants.append((0, 0, 0) if cnt % 2 else (len(cuts),) * 3)
            for ei in variants:
                pieces = cuts_to_pieces(reply, cuts, ei)
                got, extra = run(Client, op, pieces)
                cnt += 1
                ctx.case((name, cuts, ei), nontrivial=len(cuts) >= 1,
                         sample={"scenario": name, "cuts": list(cuts), "eintr_gaps": list(ei), "result": repr(got)[:80]} if (cnt == 7 and len(ctx.samples) < 4) else None)
                if got == one and name not in JUNK_AFTER_UNIT and extra != extra1:
                    ctx.violation("the call returns the same value but leaves reply bytes unread (or blocks) depending on the segmentation",
                                  {"scenario": name, "op": repr(op)[:80], "cuts": list(cuts)[:20], "eintr_gaps": list(ei), "would_block,leftover": extra,
                                   "one_piece would_block,leftover": extra1}, tags=["scenario:" + name, "op:" + op[0], "leftover"])
                if got != one:   # (bytes after the reply unit are the scenario's junk: only the result is compared there)
                    tags = ["scenario:" + name, "op:" + op[0]]
                    ctx.violation("result differs from the one-piece result",
                                  {"scenario": name, "op": repr(op)[:80], "reply": hx(reply[:200]), "cuts": list(cuts)[:20], "eintr_gaps": list(ei),
                                   "one_piece": repr(one)[:120], "got": repr(got)[:120], "would_block,leftover": extra}, tags=tags)
        ctx.count("scenario:" + name, cnt)
    reader_level(ctx, base)
    ctx.assumptions = ["replies are what a memcached server can send (sizes are non-negative decimals)",
                       "recv(n) may return any non-empty prefix of the available bytes"]
    ctx.finish(search)
