"""C20 — key validation accepts exactly the documented legal keys.
Real `check_key_helper` / `Client.check_key` / `PooledClient.check_key` / `HashClient` routing check versus
(a) the Lean model `Key.checkKey` (correspondence) and (b) the declarative rule written out here (monitor)."""
import itertools

from common import Ctx, hx, import_repo
from fakesock import FakeSocketModule, World

FORBIDDEN = set(b" \t\n\x0b\x0c\r\x00")
CLASSES = [0x00, 0x09, 0x0A, 0x0B, 0x0C, 0x0D, 0x20, 0x01, 0x1F, 0x41, 0x7F, 0x80, 0xFF]
CPS = [0x20, 0x09, 0x0A, 0x00, 0x41, 0x7F, 0x80, 0x85, 0xA0, 0xE9, 0x3A9, 0x20AC, 0x2028, 0x3000, 0xFFFD, 0x1F600]


def legal(au, pfx, key):
    """the rule of the statement: returns the wire key or None"""
    if isinstance(key, str):
        try:
            enc = key.encode("utf8" if au else "ascii")
        except UnicodeEncodeError:
            return None
    else:
        enc = key
    w = pfx + enc
    if len(w) > 250 or (set(w) & FORBIDDEN):
        return None
    return w


def key_tok(key):
    if isinstance(key, str):
        return "s:" + (",".join(str(ord(c)) for c in key) or "-")
    return "b:" + hx(key)


def gen(ctx):
    rng = ctx.rng
    out = []
    for n in (1, 2, 3):
        for t in itertools.product(CLASSES, repeat=n):
            out.append((bool(len(out) % 2), b"", bytes(t)))
    for n in (1, 2):
        for t in itertools.product(CPS, repeat=n):
            for au in (False, True):
                out.append((au, b"", "".join(map(chr, t))))
    base = b"abcdefghij"
    for pos in (0, 5, 9):
        for b in range(256):
            k = base[:pos] + bytes([b]) + base[pos + 1:]
            out.append((False, b"", k))
            if b < 128:
                out.append((b % 2 == 0, b"p:", k.decode("ascii")))
    for total in range(247, 254):
        for plen in (0, 1, 2, 100, 248, 249, 250, 251):
            if plen > total:
                continue
            out.append((False, b"p" * plen, b"k" * (total - plen)))
            out.append((True, b"p" * plen, "k" * (total - plen)))
        # multi-byte: characters count differs from byte count
        for ch, width in (("é", 2), ("€", 3), ("\U0001F600", 4)):
            n = total // width
            for extra in (0, 1):
                out.append((True, b"", ch * (n + extra)))
                out.append((True, b"x" * (total - n * width), ch * n))
                out.append((False, b"", ch * (n + extra)))
    # text that has more than one Unicode spelling (decomposed letters, Hangul jamo, compatibility forms, ligatures): a key is the bytes of the text as
    # given - no normalisation, no case folding - alone, around the length limit (a decomposed key of 251/252 bytes composes to <= 250) and behind a prefix
    for k in ("e\u0301", "A\u030a", "\u1100\u1161\u11a8", "\ufb01", "\u2126", "\u00c5", "\u212b", "n\u0303o", "\u0958", "\u1e9b\u0323", "\u0130", "\u00df", "\uff21"):
        for au in (False, True):
            out.append((au, b"", k))
            out.append((au, b"ns:", k + "x"))
    for total in (249, 250, 251, 252, 253):
        out.append((True, b"", "k" * (total - 3) + "e\u0301"))
        out.append((True, b"", "e\u0301" * (total // 3) + "k" * (total % 3)))
        out.append((True, b"p" * (total - 6), "A\u030a" * 2))
    # keys that start with (or equal) the prefix: the prefix must still be added
    for pfx in (b"ns:", b"p", b"user:"):
        for k in (pfx, pfx + b"x", pfx + pfx, pfx.decode(), pfx.decode() + "42", b"x" + pfx):
            for au in (False, True):
                out.append((au, pfx, k))
    # prefixes that are themselves illegal / whitespace, empty keys
    for pfx in (b"", b" ", b"a b", b"\x00", b"ok:"):
        for k in (b"", "", b"k", "k", b" ", " ", b"\r\n", "\t\n"):
            for au in (False, True):
                out.append((au, pfx, k))
    nrand = 20000 if ctx.thorough else 1500
    for _ in range(nrand):
        n = rng.choice([1, 2, 5, 20, 100, 249, 250, 251])
        if rng.random() < .5:
            k = bytes(rng.choice(CLASSES) if rng.random() < .08 else rng.randrange(33, 127) for _ in range(n))
        else:
            k = "".join(chr(rng.choice(CPS) if rng.random() < .08 else rng.randrange(33, 127)) for _ in range(n))
        pfx = rng.choice([b"", b"", b"ns:", b"p" * rng.randrange(0, 252)])
        out.append((rng.random() < .5, pfx, k))
    return out


def main(argv):
    ctx = Ctx("C20", argv)
    ctx.prepare_lean()
    import_repo()
    from pymemcache.client.base import Client, PooledClient, check_key_helper
    from pymemcache.client.hash import HashClient
    from pymemcache.exceptions import MemcacheIllegalInputError
    ctx.rule = ("keys of length 1..3 over 13 byte classes (exhaustive) and 1..2 over 16 code-point classes x unicode on/off; every byte "
                "value at 3 positions of a 10-byte key; total lengths 247..253 x prefix lengths {0,1,2,100,248..251} for ASCII and "
                "2/3/4-byte UTF-8; whitespace/NUL prefixes; random long keys; non-trivial = distinct (au, prefix, key) with non-empty wire form")
    cases = gen(ctx)
    lines = []
    reals = []
    world = World(server=lambda conn, data: [b"END\r\n"])
    sm = FakeSocketModule(world)
    for i, (au, pfx, key) in enumerate(cases):
        want = legal(au, pfx, key)
        enc_empty = (pfx + (key.encode("utf8", "replace") if isinstance(key, str) else key)) == b""
        case = {"au": au, "prefix": hx(pfx), "key": key_tok(key)}

        def run(f):
            try:
                r = f()
                return ("ok", r)
            except MemcacheIllegalInputError:
                return ("illegal", None)
            except Exception as e:
                return ("exc", type(e).__name__)
        r_helper = run(lambda: check_key_helper(key, au, pfx))
        results = {"helper": r_helper}
        # the encoding of VALUES is a different setting: it has no say in which keys are legal
        enc_kw = [{}, {"encoding": "ascii"}, {"encoding": "utf-8"}, {"encoding": "latin-1"}][(i // 3) % 4 if isinstance(key, str) else 0]
        case["value_encoding"] = enc_kw.get("encoding", "default")
        if i % 3 == 0 or want is None or len(pfx + (key if isinstance(key, bytes) else b"")) >= 247:
            c = Client(("h", 1), allow_unicode_keys=au, key_prefix=pfx, socket_module=sm, **enc_kw)
            results["Client.check_key"] = run(lambda: c.check_key(key, pfx))
            try:
                pc = PooledClient(("h", 1), allow_unicode_keys=au, key_prefix=pfx, socket_module=sm, **enc_kw)
                results["PooledClient.check_key"] = run(lambda: pc.check_key(key))
            except Exception as e:
                results["PooledClient.check_key"] = ("exc", type(e).__name__)
        if i % 7 == 0:
            # what is transmitted, and HashClient's routing check (same rule before any contact)
            for cls in ("Client", "HashClient"):
                world.conns.clear()
                world.tag = i
                try:
                    if cls == "Client":
                        obj = Client(("h", 1), allow_unicode_keys=au, key_prefix=pfx, socket_module=sm, **enc_kw)
                    else:
                        obj = HashClient([("h", 1)], allow_unicode_keys=au, key_prefix=pfx, socket_module=sm, **enc_kw)
                    r = run(lambda: obj.get(key))
                except Exception as e:
                    r = ("exc", type(e).__name__)
                sent = b"".join(d for c in world.conns for _, d in c.sent)
                if r[0] == "ok":
                    results[cls + ".get"] = ("ok", sent[4:-2] if sent.startswith(b"get ") and sent.endswith(b"\r\n") else b"?" + sent)
                else:
                    results[cls + ".get"] = r
                    if sent:
                        ctx.violation("bytes were sent for a rejected key", dict(case, cls=cls, sent=hx(sent)), tags=["sent-on-reject"])
        ctx.count("kind:" + ("str" if isinstance(key, str) else "bytes"))
        ctx.count("verdict:" + ("legal" if want is not None else "illegal"))
        ctx.case((au, pfx, key), nontrivial=not enc_empty, sample=case if i in (7, 3000, 5000) else None)
        if enc_empty:
            ctx.count("empty-wire-form (outside the property's domain)")
        for who, r in results.items():
            if r[0] == "exc":
                ctx.violation(f"{who}: rejection is not MemcacheIllegalInputError ({r[1]})", dict(case, who=who), tags=[who, "wrong-exception"])
            elif not enc_empty:
                got = r[1] if r[0] == "ok" else None
                if got != want:
                    tags = [who]
                    if want is None and got is not None and not (set(got) - set(b" \t\n\x0b\x0c\r")):
                        tags.append("all-whitespace-key-accepted")
                    ctx.violation(f"{who}: {'accepted an illegal key' if want is None else 'rejected or altered a legal key'}",
                                  dict(case, who=who, got=None if got is None else hx(got), want=None if want is None else hx(want)), tags=tags)
        lines.append(f"checkkey au={int(au)} pfx={hx(pfx)} k={key_tok(key)}")
        reals.append((case, "ok " + hx(r_helper[1]) if r_helper[0] == "ok" else "err IllegalInput" if r_helper[0] == "illegal" else "exc " + str(r_helper[1])))
    # ---- the same rule on every key-addressed command of every class, also with ignore_exc ------------------------
    commands = {
        "get": lambda o, k: o.get(k), "gets": lambda o, k: o.gets(k), "gat": lambda o, k: o.gat(k, 30), "gats": lambda o, k: o.gats(k, 30),
        "set": lambda o, k: o.set(k, b"v", noreply=True), "add": lambda o, k: o.add(k, b"v", noreply=True), "replace": lambda o, k: o.replace(k, b"v", noreply=True),
        "append": lambda o, k: o.append(k, b"v", noreply=True), "prepend": lambda o, k: o.prepend(k, b"v", noreply=True), "cas": lambda o, k: o.cas(k, b"v", b"1", noreply=True),
        "delete": lambda o, k: o.delete(k, noreply=True), "incr": lambda o, k: o.incr(k, 1, noreply=True), "decr": lambda o, k: o.decr(k, 1, noreply=True),
        "touch": lambda o, k: o.touch(k, 10, noreply=True), "get_many": lambda o, k: o.get_many([k]), "gets_many": lambda o, k: o.gets_many([k]),
        "set_many": lambda o, k: o.set_many({k: b"v"}, noreply=True), "delete_many": lambda o, k: o.delete_many([k], noreply=True),
    }
    sample = [b"k", "k", b"two words", "tab\tkey", b"nul\x00", b"k" * 250, b"k" * 251, "é", b"ns:already", b"ns:", "x" * 247, "x" * 248, b"\r\n", b"a\nb"]
    for pfx in (b"", b"ns:"):
        for au in (False, True):
            for ign in (False, True):
                for cls in ("Client", "PooledClient", "HashClient"):
                    for cname, fn in commands.items():
                        for key in sample:
                            world.conns.clear()
                            world.tag = ("cmd", cname)
                            kw = dict(allow_unicode_keys=au, key_prefix=pfx, socket_module=sm, ignore_exc=ign)
                            try:
                                obj = {"Client": lambda: Client(("h", 1), **kw), "PooledClient": lambda: PooledClient(("h", 1), **kw),
                                       "HashClient": lambda: HashClient([("h", 1)], **kw)}[cls]()
                                fn(obj, key)
                                outcome = "ok"
                            except MemcacheIllegalInputError:
                                outcome = "illegal"
                            except Exception as e:
                                outcome = "exc:" + type(e).__name__
                            sent = b"".join(d for c in world.conns for _, d in c.sent)
                            want = legal(au, pfx, key)
                            case = {"class": cls, "command": cname, "au": au, "prefix": hx(pfx), "key": key_tok(key), "ignore_exc": ign, "outcome": outcome, "sent": hx(sent[:80])}
                            ctx.case(("cmd", cls, cname, au, pfx, key, ign), nontrivial=True)
                            ctx.count("all-commands")
                            tags = [cls, "command:" + cname] + (["ignore_exc"] if ign else [])
                            if want is None or want == b"":
                                if want == b"":
                                    continue           # empty wire form: outside the property
                                if sent:
                                    ctx.violation("an illegal key was transmitted", case, tags=tags + ["sent-on-reject"])
                                elif outcome != "illegal":
                                    ctx.violation("an illegal key was not rejected with MemcacheIllegalInputError", case, tags=tags + ["not-rejected"])
                            else:
                                toks = sent.split(b"\r\n")[0].split(b" ")
                                # the key is the first token that is not the verb or (for gat/gats) the exptime
                                wire_key = toks[2] if cname in ("gat", "gats") and len(toks) > 2 else (toks[1] if len(toks) > 1 else None)
                                if outcome == "illegal" or wire_key != want:
                                    ctx.violation("a legal key was rejected or not transmitted as exactly prefix + encoded key",
                                                  dict(case, wire_key=None if wire_key is None else hx(wire_key), want=hx(want)), tags=tags + ["wire-key"])
    # ---- the rule does not depend on what the same object did before: the same strings used earlier as stats / cache_memlimit arguments
    #      (which are checked with an EMPTY prefix), as keys of other commands, or in another spelling (str / bytes) ----------------------
    hist_keys = ["items", b"items", "64", b"64", "k" * 250, b"k" * 248, "x" * 247, "two words", b"nul\x00", "é", b"ns:k"]
    for pfx in (b"ns:", b"p", b""):
        for au in (False, True):
            for cls in ("Client", "PooledClient", "HashClient"):
                for key in hist_keys:
                    for pre in ("stats", "cache_memlimit", "same-key-twice", "other-spelling", "set-then-get"):
                        world.conns.clear()
                        world.tag = ("hist", pre)
                        kw = dict(allow_unicode_keys=au, key_prefix=pfx, socket_module=sm)
                        obj = {"Client": lambda: Client(("h", 1), **kw), "PooledClient": lambda: PooledClient(("h", 1), max_pool_size=1, **kw),
                               "HashClient": lambda: HashClient([("h", 1)], **kw)}[cls]()
                        try:
                            if pre == "stats":
                                if not hasattr(obj, "stats"):
                                    continue
                                obj.stats(key)
                            elif pre == "cache_memlimit":
                                txt = key.decode() if isinstance(key, bytes) else key
                                if not hasattr(obj, "cache_memlimit") or not txt.isdigit():
                                    continue
                                obj.cache_memlimit(int(txt))
                            elif pre == "same-key-twice":
                                obj.get(key)
                            elif pre == "other-spelling":
                                obj.get(key.decode("utf8") if isinstance(key, bytes) else key.encode("utf8"))
                            else:
                                obj.set(key, b"v", noreply=True)
                        except Exception:
                            pass
                        nbefore = sum(len(c.sent) for c in world.conns)
                        try:
                            obj.get(key)
                            outcome = "ok"
                        except MemcacheIllegalInputError:
                            outcome = "illegal"
                        except Exception as e:
                            outcome = "exc:" + type(e).__name__
                        allsent = [d for c in world.conns for _, d in c.sent]
                        sent = b"".join(allsent[nbefore:])
                        want = legal(au, pfx, key)
                        case = {"class": cls, "earlier_call": pre, "then": "get", "au": au, "prefix": hx(pfx), "key": key_tok(key), "outcome": outcome, "sent": hx(sent[:80])}
                        ctx.case(("hist", cls, pre, au, pfx, key), nontrivial=True)
                        ctx.count("histories-on-one-object")
                        tags = [cls, "history"]
                        if want is None:
                            if sent:
                                ctx.violation("an illegal key was transmitted (after an earlier call on the same object)", case, tags=tags + ["sent-on-reject"])
                            elif outcome != "illegal":
                                ctx.violation("an illegal key was not rejected with MemcacheIllegalInputError (after an earlier call on the same object)", case, tags=tags + ["not-rejected"])
                        elif want != b"":
                            toks = sent.split(b"\r\n")[0].split(b" ")
                            wire_key = toks[1] if len(toks) > 1 else None
                            if outcome == "illegal" or wire_key != want:
                                ctx.violation("a legal key was rejected or not transmitted as exactly prefix + encoded key (after an earlier call on the same object)",
                                              dict(case, wire_key=None if wire_key is None else hx(wire_key), want=hx(want)), tags=tags + ["wire-key"])
    # ---- a HashClient with no server in rotation (none configured, or the only one declared dead): an illegal key is still reported as
    #      MemcacheIllegalInputError - not as "all servers down", not as a miss under ignore_exc ---------------------------------------------
    import pymemcache.client.hash as hash_mod
    bad_keys = [b"two words", "tab\tkey", b"nul\x00", b"k" * 251, "é", b"\r\n", b"a\nb"]        # (str / bytes keys: the (server_key, key) pair form is outside the property's quantifier)
    for ign in (False, True):
        for how in ("no-servers", "only-server-dead"):
            for cname in ("get", "gets", "set", "add", "delete", "incr", "touch", "get_many", "gets_many", "set_many", "delete_many"):
                for key in bad_keys:
                    world.conns.clear()
                    world.tag = ("noserver", cname)
                    if how == "no-servers":
                        hc = HashClient([], socket_module=sm, ignore_exc=ign, key_prefix=b"ns:")
                    else:
                        hc = HashClient([("h", 1)], socket_module=sm, ignore_exc=True, key_prefix=b"ns:", retry_attempts=0, dead_timeout=10 ** 6)
                        world.refuse_addrs = {("h", 1)}
                        try:
                            hc.get("probe")
                        except Exception:
                            pass
                        world.refuse_addrs = set()
                        hc.ignore_exc = ign
                        if hc.hasher.nodes:
                            continue          # (the harness could not take the server out of rotation)
                    nbefore = sum(len(c.sent) for c in world.conns)
                    try:
                        if cname in ("get_many", "gets_many", "delete_many"):
                            getattr(hc, cname)([key])        # (alone: with a legal key in front, "all servers down" for that key comes first, legitimately)
                        elif cname == "set_many":
                            hc.set_many({key: b"v"})
                        elif cname in ("set", "add"):
                            getattr(hc, cname)(key, b"v")
                        elif cname == "incr":
                            hc.incr(key, 1)
                        elif cname == "touch":
                            hc.touch(key, 1)
                        else:
                            getattr(hc, cname)(key)
                        outcome = "returned"
                    except MemcacheIllegalInputError:
                        outcome = "illegal"
                    except Exception as e:
                        outcome = "exc:" + type(e).__name__
                    case = {"class": "HashClient", "rotation": how, "command": cname, "ignore_exc": ign, "key": repr(key)[:40], "outcome": outcome}
                    ctx.case(("noserver", how, cname, ign, repr(key)))
                    ctx.count("no-server-in-rotation")
                    if outcome != "illegal":
                        ctx.violation("an illegal key was not rejected with MemcacheIllegalInputError by a HashClient that has no server in rotation", case,
                                      tags=["HashClient", "no-server", "not-rejected"] + (["ignore_exc"] if ign else []))
    if ctx.lean.build_ok:
        for (case, real), m in zip(reals, ctx.driver.batch(lines)):
            if m != real:
                ctx.disagreement("model checkKey differs from check_key_helper", dict(case, impl=real, model=m), theorem="C20_checkKey_iff_legal")
    # builtins used by the model, against CPython itself
    blines, bwant = [], []
    for t in itertools.product([0x20, 0x09, 0x0A, 0x0B, 0x0C, 0x0D, 0x00, 0x41, 0x1C, 0x1F, 0x85, 0xA0], repeat=4):
        b = bytes(t)
        blines.append("splitws b=" + hx(b))
        bwant.append("ok " + ",".join(hx(p) for p in b.split()))
    for cp in list(range(0, 0x800, 7)) + [0x7F, 0x80, 0x7FF, 0x800, 0xD7FF, 0xE000, 0xFFFF, 0x10000, 0x10FFFF] + [ctx.rng.randrange(0xE000, 0x110000) for _ in range(300)]:
        blines.append(f"utf8 cps={cp}")
        bwant.append("ok " + hx(chr(cp).encode("utf8")))
    if ctx.lean.build_ok:
        for l, w, m in zip(blines, bwant, ctx.driver.batch(blines)):
            ctx.count("builtin-check")
            if m != w:
                ctx.disagreement("model of a CPython builtin differs from CPython", {"line": l, "cpython": w, "model": m}, theorem="C20_split_singleton_iff")
    # ---- the prefix given as text: an ASCII `str` prefix is the same prefix as its bytes (same verdicts, same wire keys); anything that is neither `str` nor
    #      `bytes` is refused when the client is built, and so is text outside ASCII (line 363-366 / 1428-1431 of base.py) ----
    for cls_name, mk in (("Client", lambda **kw: Client(("h", 1), **kw)), ("PooledClient", lambda **kw: PooledClient(("h", 1), **kw)),
                         ("HashClient", lambda **kw: HashClient([("h", 1)], **kw))):
        for pfx_s in ("", "ns:", "p" * 248, "a b", "user:"):
            for au in (False, True):
                try:
                    cs, cb = mk(key_prefix=pfx_s, allow_unicode_keys=au), mk(key_prefix=pfx_s.encode("ascii"), allow_unicode_keys=au)
                except Exception as e:
                    ctx.violation("a client could not be built with an ASCII text prefix", {"class": cls_name, "prefix": pfx_s[:20], "error": repr(e)[:80]}, tags=["str-prefix"])
                    continue
                for key in (b"k", "k", b"kk", "k k", b"", "\u00e9", b"x" * 250, "y" * 3):
                    def verdict(c_):
                        try:
                            return ("ok", c_.check_key(key) if cls_name != "Client" else c_.check_key(key, c_.key_prefix))
                        except MemcacheIllegalInputError:
                            return ("illegal", None)
                        except Exception as e:
                            return ("exc", type(e).__name__)
                    ctx.case(("str-prefix", cls_name, pfx_s, au, repr(key)))
                    ctx.count("text prefix vs bytes prefix")
                    if verdict(cs) != verdict(cb) or (verdict(cs)[0] == "ok" and not verdict(cs)[1].startswith(pfx_s.encode("ascii"))):
                        ctx.violation("a prefix given as ASCII text does not behave like the same prefix given as bytes",
                                      {"class": cls_name, "prefix": pfx_s[:20], "allow_unicode_keys": au, "key": repr(key)[:40], "text": repr(verdict(cs))[:80], "bytes": repr(verdict(cb))[:80]}, tags=["str-prefix"])
        for bad in (5, None, bytearray(b"p"), ["p"], "pr\u00e9fixe"):
            ctx.case(("bad-prefix", cls_name, repr(bad)))
            ctx.count("prefix of a wrong type")
            try:
                mk(key_prefix=bad)
                ctx.violation("a client was built with a prefix that is neither ASCII text nor bytes", {"class": cls_name, "prefix": repr(bad)}, tags=["str-prefix"])
            except (TypeError, UnicodeEncodeError):
                pass
    ctx.assumptions = ["str keys are well-formed Unicode (no lone surrogates), as the property's quantifier says",
                       "keys are str or bytes"]
    ctx.finish()
