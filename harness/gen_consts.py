"""Translator for the finite tables of the source: prints Pymc/Generated/Consts.lean for the repo at argv[1].
Everything here is read from the imported modules (not from text), so it follows refactorings."""
import sys
sys.path.insert(0, sys.argv[1])


def lean_str(s):
    return '"' + s.replace("\\", "\\\\").replace('"', '\\"') + '"'


def lean_bytes(b):
    return "[" + ", ".join(str(x) for x in b) + "]"


def main():
    out = []
    w = out.append
    w("/-! GENERATED on every run by harness/gen_consts.py from the working tree under test. Do not edit. -/")
    w("namespace Generated")
    try:
        import pymemcache.client.base as base
        import pymemcache.serde as serde
        w(f"def recvSize : Nat := {int(base.RECV_SIZE)}")
        vs = sorted(base.VALID_STORE_RESULTS.items())
        w("def validStoreResults : List (List UInt8 × List (List UInt8)) := [")
        w(",\n".join(f"  ({lean_bytes(k)}, [{', '.join(lean_bytes(x) for x in v)}])" for k, v in vs))
        w("]")
        def tri(v):
            return {True: "some true", False: "some false", None: "none"}[v]
        sr = sorted(base.STORE_RESULTS_VALUE.items())
        w("def storeResultsValue : List (List UInt8 × Option Bool) := [")
        w(",\n".join(f"  ({lean_bytes(k)}, {tri(v)})" for k, v in sr))
        w("]")
        # the stats type table: key -> name of the converter (builtins and module functions have a `__name__`)
        st = sorted((k, getattr(v, "__name__", "?")) for k, v in base.STAT_TYPES.items() if isinstance(k, bytes))
        w("def statTypes : List (List UInt8 × String) := [")
        w(",\n".join(f"  ({lean_bytes(k)}, {lean_str(n)})" for k, n in st))
        w("]")
        w(f"def statTypesAllBytesKeys : Bool := {'true' if all(isinstance(k, bytes) for k in base.STAT_TYPES) else 'false'}")
        for n in ["FLAG_BYTES", "FLAG_PICKLE", "FLAG_INTEGER", "FLAG_LONG", "FLAG_COMPRESSED", "FLAG_TEXT"]:
            w(f"def {n.lower().replace('flag_', 'flag')} : Nat := {int(getattr(serde, n))}")
        # ---- C16: signatures and forwarding tables --------------------------------------------------------
        import ast, inspect, textwrap
        from pymemcache.client.base import Client, PooledClient
        from pymemcache.client.hash import HashClient
        methods = ["set", "set_many", "add", "replace", "append", "prepend", "cas", "get", "gat", "gets", "gats", "get_many", "gets_many",
                   "delete", "delete_many", "incr", "decr", "touch"]

        def sig(cls, m):
            out = []
            for n, prm in list(inspect.signature(getattr(cls, m)).parameters.items())[1:]:
                kind = {prm.VAR_POSITIONAL: "*", prm.VAR_KEYWORD: "**"}.get(prm.kind, "")
                out.append((kind + n, "REQUIRED" if prm.default is prm.empty else repr(prm.default)))
            return out

        def lean_sig(l):
            return "[" + ", ".join(f"({lean_str(a)}, {lean_str(b)})" for a, b in l) + "]"
        w("def keyMethods : List String := [" + ", ".join(lean_str(m) for m in methods) + "]")
        for name, cls in (("client", Client), ("pooled", PooledClient), ("hash", HashClient)):
            w(f"def {name}Sigs : List (String × List (String × String)) := [")
            w(",\n".join(f"  ({lean_str(m)}, {lean_sig(sig(cls, m))})" for m in methods))
            w("]")
        # how each PooledClient method calls the inner client: positional argument names and keyword (name, value-name) pairs
        fw = []
        for m in methods:
            src = textwrap.dedent(inspect.getsource(getattr(PooledClient, m)))
            tree = ast.parse(src)
            calls = [n for n in ast.walk(tree) if isinstance(n, ast.Call) and isinstance(n.func, ast.Attribute)
                     and isinstance(n.func.value, ast.Name) and n.func.value.id == "client"]
            inner = [c for c in calls if c.func.attr == m]
            if len(inner) != 1:
                fw.append((m, "?", [], []))
                continue
            c = inner[0]
            pos = [a.id if isinstance(a, ast.Name) else "?" for a in c.args]
            kws = [(k.arg or "**", k.value.id if isinstance(k.value, ast.Name) else "?") for k in c.keywords]
            fw.append((m, c.func.attr, pos, kws))
        w("def pooledForward : List (String × String × List String × List (String × String)) := [")
        w(",\n".join(f"  ({lean_str(m)}, {lean_str(t)}, [{', '.join(lean_str(x) for x in pos)}], [{', '.join('(' + lean_str(a) + ', ' + lean_str(b) + ')' for a, b in kws)}])"
                     for m, t, pos, kws in fw))
        w("]")
        # constructor options that reach the working client
        src = textwrap.dedent(inspect.getsource(PooledClient._create_client))
        call = [n for n in ast.walk(ast.parse(src)) if isinstance(n, ast.Call) and isinstance(n.func, ast.Attribute) and n.func.attr == "client_class"][0]
        kws = [(k.arg, ast.unparse(k.value)) for k in call.keywords]
        w("def pooledCreateClientKw : List (String × String) := [" + ", ".join(f"({lean_str(a)}, {lean_str(b)})" for a, b in kws) + "]")
        hk = sorted(HashClient([]).default_kwargs.keys())
        w("def hashDefaultKwargs : List String := [" + ", ".join(lean_str(k) for k in hk) + "]")
        hkp = sorted(HashClient([], use_pooling=True).default_kwargs.keys())
        w("def hashPooledDefaultKwargs : List String := [" + ", ".join(lean_str(k) for k in hkp) + "]")
        cp = [n for n in inspect.signature(Client.__init__).parameters][1:]
        w("def clientCtorParams : List String := [" + ", ".join(lean_str(k) for k in cp) + "]")
        pp = [n for n in inspect.signature(PooledClient.__init__).parameters][1:]
        w("def pooledCtorParams : List String := [" + ", ".join(lean_str(k) for k in pp) + "]")
    except Exception as e:  # an unimportable tree is reported by the checks, not here
        w(f"-- extraction failed: {e!r}")
        w("def extractionFailed : Bool := true")
    w("end Generated")
    print("\n".join(out))


main()
