"""Translator for the finite tables of the source: prints Pymc/Generated/Consts.lean for the repo at argv[1].
Everything here is read from the imported modules (not from text), so it follows refactorings."""
import sys
sys.path.insert(0, sys.argv[1])


def lean_str(s):
    return '"' + s.replace("\\", "\\\\").replace('"', '\\"') + '"'


def lean_bytes(b):
    return "[" + ", ".join(str(x) for x in b) + "]"


def main():
    out = []
    w = out.append
    w("/-! GENERATED on every run by harness/gen_consts.py from the working tree under test. Do not edit. -/")
    w("namespace Generated")
    try:
        import pymemcache.client.base as base
        import pymemcache.serde as serde
        w(f"def recvSize : Nat := {int(base.RECV_SIZE)}")
        vs = sorted(base.VALID_STORE_RESULTS.items())
        w("def validStoreResults : List (List UInt8 × List (List UInt8)) := [")
        w(",\n".join(f"  ({lean_bytes(k)}, [{', '.join(lean_bytes(x) for x in v)}])" for k, v in vs))
        w("]")
        def tri(v):
            return {True: "some true", False: "some false", None: "none"}[v]
        sr = sorted(base.STORE_RESULTS_VALUE.items())
        w("def storeResultsValue : List (List UInt8 × Option Bool) := [")
        w(",\n".join(f"  ({lean_bytes(k)}, {tri(v)})" for k, v in sr))
        w("]")
        for n in ["FLAG_BYTES", "FLAG_PICKLE", "FLAG_INTEGER", "FLAG_LONG", "FLAG_COMPRESSED", "FLAG_TEXT"]:
            w(f"def {n.lower().replace('flag_', 'flag')} : Nat := {int(getattr(serde, n))}")
    except Exception as e:  # an unimportable tree is reported by the checks, not here
        w(f"-- extraction failed: {e!r}")
        w("def extractionFailed : Bool := true")
    w("end Generated")
    print("\n".join(out))


main()
