"""Replay of the witness of `C01_hash_broadcast_close_closes_all_witness` (`lean/Pymc/Proofs/HashBroadcastCloseExamples.lean`:
`closeEscCalls`) on the real `pymemcache.client.hash.HashClient` (use_pooling=False), over the scripted socket module and the
preference-order hasher of `hashcall_diff.py`, next to the composed Lean model (driver command `hashcall`).

Standalone (not part of `./check`):   python harness/hashbroadcast_close_replay.py
Environment: VERIF_REPO (default /repo) = the tree whose pymemcache is imported.

The history (`retry_attempts=1, retry_timeout=1, dead_timeout=5, ignore_exc=False`, servers 0 and 1, server 0 down throughout,
the clock never goes back):
  0. t=0  get k -> server 1 (preference order [1, 0]): served; client 1 now holds a socket;
  1.-4. t=0,2,4,6  flush_all(): server 0 refuses the connection each time (marked; retried; evicted + final probe refused: a new
     failure record for a server that is out of rotation; retried) - the OSError escapes each time, server 1 is not reached;
  5. t=8  close(): the attempts of server 0 are used up -> remove_server(0) inside the `try`: `_failed_clients.pop`,
     `_dead_clients[0] = 8`, `hasher.remove_node` raises ValueError -> `except Exception` re-raises (ignore_exc is off): the
     loop of `close()` ends, `client.close()` is never called on the client of server 1.
Expected (model): the last call raises the bookkeeping ValueError, and afterwards client 1 STILL HOLDS ITS SOCKET.
With ignore_exc=True (second run) the ValueError is swallowed, the loop goes on and every client ends without a socket.
Exit status 0 iff the real HashClient and the model agree on every line and the socket of server 1 is open after `close()` in the
first run and closed in the second.
"""
import os
import subprocess
import sys

HERE = os.path.dirname(os.path.abspath(__file__))
sys.dont_write_bytecode = True
sys.path.insert(0, HERE)

import hashcall_diff as HD  # noqa: E402
import hashbroadcast_diff as HB  # noqa: E402


def history():
    ok = {"cf": None, "sf": None, "evs": [("d", b"OK\r\n")]}
    down = {"cf": 61, "sf": 32, "evs": [("d", b"OK\r\n")]}
    value = {"cf": None, "sf": None, "evs": [("d", b"VALUE k 0 1\r\nx\r\nEND\r\n")]}
    get_scripts = {0: dict(down), 1: dict(value)}
    flush = lambda t: ("bcast", "flush_all", (0, False), {0: dict(down), 1: dict(ok)}, t)  # noqa: E731
    return [((lambda c: c.get(b"k", "DEFAULT")), "op=get k=b:6b", get_scripts, 0, [1, 0]),
            flush(0), flush(2), flush(4), flush(6),
            ("bcast", "close", (), {}, 8)]


def late_history(tclose):
    """`lateCalls tclose` of `HashBroadcastCloseExamples.lean` (ignore_exc=True): t=0 get k -> server 0, refused: marked (0 attempts,
    failed at 0); t=2 incr k -> server 0, the retry: connected, the reply line `x` makes `int()` raise ValueError AFTER the exchange
    - the socket stays open, the failure record stays; then close() at `tclose`: at 2 the retry window has elapsed and
    `client.close()` is called; at 1 (the clock went back) the client is skipped and keeps its socket."""
    refuse = {"cf": 61, "sf": 32, "evs": [("d", b"END\r\n")]}
    junk = {"cf": None, "sf": None, "evs": [("d", b"x\r\n")]}
    return [((lambda c: c.get(b"k", "DEFAULT")), "op=get k=b:6b", {0: dict(refuse), 1: dict(refuse)}, 0, [0, 1]),
            ((lambda c: c.incr(b"k", 1, noreply=False)), "op=incr k=b:6b d=i:1 nr=0", {0: dict(junk), 1: dict(junk)}, 2, [0, 1]),
            ("bcast", "close", (), {}, tclose)]


def run(ign, h=None):
    HD._bind()
    params = (2, 1, 1, 5, ign, 0)
    h = h or history()
    routed = []
    py = HD.run_python(params, h, routed_out=routed)
    line = HD.driver_line(params, HB.resolve(h, routed))
    p = subprocess.run([HD.DRIVER], input=line + "\n", stdout=subprocess.PIPE, text=True, timeout=600)
    outs = p.stdout.strip("\n").split("\n")
    n, bad = HD.compare([line], outs, [py])
    return py, outs, bad


class _Sock:
    """second replay: a socket whose peer is decided by the port: port 0 refuses connections, any other port answers"""

    def __init__(self):
        self.port, self.reply, self.closed = None, b"", False

    def settimeout(self, t):
        pass

    def setsockopt(self, *a):
        pass

    def connect(self, addr):
        self.port = addr[1]
        if self.port == 0:
            raise ConnectionRefusedError(61, "refused")

    def sendall(self, data):
        self.reply += b"VALUE %s 0 1\r\nx\r\nEND\r\n" % data.split()[1] if data.startswith(b"get ") else b"OK\r\n"

    def recv(self, n):
        out, self.reply = self.reply, b""
        return out

    def close(self):
        self.closed = True


class _SockMod:
    AF_UNIX, AF_INET, AF_UNSPEC, SOCK_STREAM, IPPROTO_TCP, TCP_NODELAY = 1, 2, 0, 1, 6, 1
    timeout = __import__("socket").timeout
    error = OSError

    def socket(self, *a):
        return _Sock()

    def getaddrinfo(self, host, port, *a):
        return [(2, 1, 6, "", (host, port))]


def run_default_hasher():
    """the same history on a HashClient built with the library's defaults: `RendezvousHash`, `Client`; only the socket module and
    the clock of `pymemcache.client.hash` are scripted.  Returns (exception of close(), servers with a socket afterwards)."""
    HD._bind()
    H = HD.H
    clock = {"now": 0}

    class T:
        time = staticmethod(lambda: clock["now"])
    saved, H.time = H.time, T
    try:
        hc = H.HashClient([("h", 0), ("h", 1)], retry_attempts=1, retry_timeout=1, dead_timeout=5, ignore_exc=False,
                          socket_module=_SockMod(), default_noreply=False)
        key = next(b"k%d" % i for i in range(1000) if hc.hasher.get_node("k%d" % i) == "h:1")
        assert hc.get(key) == b"x"
        log = []
        for t in (0, 2, 4, 6):
            clock["now"] = t
            try:
                hc.flush_all()
                log.append("None")
            except OSError as e:
                log.append(type(e).__name__)
        clock["now"] = 8
        try:
            hc.close()
            res = "None"
        except Exception as e:      # noqa: BLE001
            res = "%s(%s)" % (type(e).__name__, e)
        open_after = [k for k, c in hc.clients.items() if c.sock is not None]
        state = "nodes=%s failed=%s dead=%s" % (hc.hasher.nodes, dict(hc._failed_clients), dict(hc._dead_clients))
        return key, log, res, open_after, state
    finally:
        H.time = saved


def main():
    status = 0
    for ign in (False, True):
        py, outs, bad = run(ign)
        print(f"--- ignore_exc={ign}: real HashClient ---")
        for i, o in enumerate(py):
            print(f"  call {i}: {o}")
        print(f"--- ignore_exc={ign}: Lean model (driver) ---")
        for o in outs:
            print(f"  {o}")
        print(f"--- ignore_exc={ign}: mismatches between the two: {len(bad)}")
        last = dict(kv.split("=", 1) for kv in py[-1].split(" ") if "=" in kv)
        clients = last["clients"].strip("[]").split(",")          # server:object:has_socket:unread
        open_after = [c.split(":")[0] for c in clients if c.split(":")[2] == "1"]
        print(f"    close() -> {last['res']}; servers whose registered client still holds a socket afterwards: {open_after or 'none'}")
        want = ["1"] if not ign else []
        if bad or open_after != want:
            status = 1
    for tclose, want in ((2, []), (1, ["0"])):
        py, outs, bad = run(True, late_history(tclose))
        last = dict(kv.split("=", 1) for kv in py[-1].split(" ") if "=" in kv)
        clients = last["clients"].strip("[]").split(",")
        open_after = [c.split(":")[0] for c in clients if c.split(":")[2] == "1"]
        print(f"--- ignore_exc=True, get(refused)@0, incr(reply 'x')@2, close()@{tclose}: real HashClient (mismatches with the model: {len(bad)}) ---")
        for i, o in enumerate(py):
            print(f"  call {i}: {o}")
        print(f"    servers whose registered client still holds a socket after close(): {open_after or 'none'}")
        if bad or open_after != want:
            status = 1
    key, log, res, open_after, state = run_default_hasher()
    print("--- ignore_exc=False, library defaults (RendezvousHash, Client), key %r routed to server 1 ---" % key)
    print(f"    flush_all() x4 -> {log}; close() -> {res}; {state}")
    print(f"    clients that still hold a socket after close(): {open_after or 'none'}")
    if not res.startswith("ValueError") or open_after != ["h:1"]:
        status = 1
    print("REPLAY", "CONFIRMED" if status == 0 else "NOT CONFIRMED")
    sys.exit(status)


if __name__ == "__main__":
    main()
