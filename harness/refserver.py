"""A small reference memcached (text protocol) used as the server behind the fake socket.

It is *not* trusted on its own: every byte it receives and every reply it produces is logged, and the
checks replay that log through the Lean server model (`srv` driver lines) and compare.  Strictness follows
Pymc/Model/Wire.lean `parseReq`; semantics follow Pymc/Model/AbsMap.lean."""

FORBIDDEN = set(b" \t\n\x0b\x0c\r\x00")


def _nat(t):
    return int(t) if t and all(48 <= c <= 57 for c in t) else None


def _int(t):
    if t[:1] == b"-":
        n = _nat(t[1:])
        return None if n is None else -n
    return _nat(t)


def _valid_key(k):
    return 1 <= len(k) <= 250 and not (set(k) & FORBIDDEN)


REL_LIMIT = 60 * 60 * 24 * 30


class Store:
    def __init__(self):
        self.items = {}        # key -> [flags, exp_abs (0 = never), data, cas]
        self.cas_ctr = 0
        self.now = 1_000_000_000   # seconds; start far above the 30-day relative/absolute threshold
        self.flush_at = None   # pending delayed flush deadline
        self.log = []

    def abs_exp(self, exptime):
        if exptime == 0:
            return 0
        if exptime < 0:
            return -1          # immediately expired
        if exptime > REL_LIMIT:
            return exptime     # absolute unix time
        return self.now + exptime

    def _expire(self):
        if self.flush_at is not None and self.now >= self.flush_at:
            self.items.clear()
            self.flush_at = None

    def live(self, key):
        self._expire()
        it = self.items.get(key)
        if it is None:
            return None
        if it[1] != 0 and (it[1] < 0 or self.now >= it[1]):
            del self.items[key]
            return None
        return it

    def next_cas(self):
        self.cas_ctr += 1
        return self.cas_ctr


class RefServer:
    """one instance = one memcached process; `feed(conn_id, data)` returns reply bytes"""

    def __init__(self, store=None, name="srv"):
        self.store = store or Store()
        self.name = name
        self.bufs = {}
        self.wire_log = []     # (now, conn, data_in, reply_out)
        self.cmds = []         # parsed commands (for per-server command logs)
        self.closed_conns = set()

    def feed(self, cid, data):
        buf = self.bufs.get(cid, b"") + data
        out = b""
        while True:
            r = self.parse(buf)
            if r is None:
                break
            req, buf = r
            if req[0] == "bad":
                out += b"ERROR\r\n"
                continue
            self.cmds.append(req)
            out += self.execute(req, cid)
        self.bufs[cid] = buf
        self.wire_log.append((self.store.now, cid, data, out))
        return out

    # ---- strict parser -------------------------------------------------------------------------
    def parse(self, buf):
        p = buf.find(b"\r\n")
        if p < 0:
            return None
        line, rest = buf[:p], buf[p + 2:]
        toks = line.split(b" ")
        v, args = toks[0], toks[1:]
        bad = (("bad", line), rest)

        def nr(a):
            return (a[:-1], True) if a and a[-1] == b"noreply" else (a, False)
        if v in (b"set", b"add", b"replace", b"append", b"prepend", b"cas"):
            a, noreply = nr(args)
            want = 5 if v == b"cas" else 4
            if len(a) != want:
                return bad
            k, f, e, n = a[0], _nat(a[1]), _int(a[2]), _nat(a[3])
            c = _nat(a[4]) if v == b"cas" else None
            if not _valid_key(k) or f is None or e is None or n is None or (v == b"cas" and c is None):
                return bad
            if len(rest) < n + 2:
                return None     # wait for the data block
            if rest[n:n + 2] != b"\r\n":
                return (("bad", line), rest[n + 2:]) if False else (("baddata", v, k), rest[n + 2:])
            return ("store", v, k, f, e, rest[:n], c, noreply), rest[n + 2:]
        if v in (b"get", b"gets"):
            if not args or not all(_valid_key(k) for k in args):
                return bad
            return ("fetch", v, None, tuple(args)), rest
        if v in (b"gat", b"gats"):
            if len(args) < 2 or _int(args[0]) is None or not all(_valid_key(k) for k in args[1:]):
                return bad
            return ("fetch", v, _int(args[0]), tuple(args[1:])), rest
        if v == b"delete":
            if len(args) == 2 and args[1] == b"noreply":
                a, noreply = args[:1], True
            else:
                a, noreply = args, False
            if len(a) != 1 or not _valid_key(a[0]):
                return bad
            return ("delete", a[0], noreply), rest
        if v in (b"incr", b"decr"):
            a, noreply = nr(args)
            if len(a) != 2 or not _valid_key(a[0]) or _nat(a[1]) is None:
                return bad
            return ("arith", v == b"incr", a[0], _nat(a[1]), noreply), rest
        if v == b"touch":
            a, noreply = nr(args)
            if len(a) != 2 or not _valid_key(a[0]) or _int(a[1]) is None:
                return bad
            return ("touch", a[0], _int(a[1]), noreply), rest
        if v == b"flush_all":
            a, noreply = nr(args)
            if len(a) > 1 or (a and _nat(a[0]) is None):
                return bad
            return ("flush_all", _nat(a[0]) if a else None, noreply), rest
        if v == b"version" and not args:
            return ("version",), rest
        if v == b"quit" and not args:
            return ("quit",), rest
        if v == b"stats":
            return ("stats", tuple(args)), rest
        if v == b"cache_memlimit":
            a, noreply = nr(args)
            if len(a) != 1 or _nat(a[0]) is None:
                return bad
            return ("cache_memlimit", _nat(a[0]), noreply), rest
        if v == b"shutdown":
            if args not in ([], [b"graceful"]):
                return bad
            return ("shutdown", bool(args)), rest
        return bad

    # ---- semantics -----------------------------------------------------------------------------
    def execute(self, req, cid):
        s = self.store
        s._expire()          # a delayed flush whose deadline has passed takes effect before anything else (AbsMap.settle)
        kind = req[0]
        if kind == "baddata":
            return b"CLIENT_ERROR bad data chunk\r\n"
        if kind == "store":
            _, v, k, f, e, d, c, noreply = req
            it = s.live(k)
            if getattr(self, "max_item", None) is not None and len(d) > self.max_item:
                # harness switch (off by default): the item size limit of a real server (-I, 1 MiB by default)
                return b"" if noreply else b"SERVER_ERROR object too large for cache\r\n"
            if v == b"set" and k in getattr(self, "refuse_keys", ()):
                r = b"NOT_STORED"        # harness switch (off by default): a server that declines to store some items
            elif v == b"set":
                s.items[k] = [f, s.abs_exp(e), d, s.next_cas()]
                r = b"STORED"
            elif v == b"add":
                if it is None:
                    s.items[k] = [f, s.abs_exp(e), d, s.next_cas()]
                    r = b"STORED"
                else:
                    r = b"NOT_STORED"
            elif v == b"replace":
                if it is not None:
                    s.items[k] = [f, s.abs_exp(e), d, s.next_cas()]
                    r = b"STORED"
                else:
                    r = b"NOT_STORED"
            elif v in (b"append", b"prepend"):
                if it is not None:
                    it[2] = it[2] + d if v == b"append" else d + it[2]
                    it[3] = s.next_cas()
                    r = b"STORED"
                else:
                    r = b"NOT_STORED"
            else:  # cas
                if it is None:
                    r = b"NOT_FOUND"
                elif it[3] != c:
                    r = b"EXISTS"
                else:
                    s.items[k] = [f, s.abs_exp(e), d, s.next_cas()]
                    r = b"STORED"
            return b"" if noreply else r + b"\r\n"
        if kind == "fetch":
            _, v, e, keys = req
            out = b""
            for k in keys:
                it = s.live(k)
                if it is None:
                    continue
                if e is not None:
                    it[1] = s.abs_exp(e)
                    if s.live(k) is None:     # touched into the past: gone for later readers, but this reply still carries it
                        pass
                out += b"VALUE " + k + b" " + str(it[0]).encode() + b" " + str(len(it[2])).encode()
                if v in (b"gets", b"gats"):
                    out += b" " + str(it[3]).encode()
                out += b"\r\n" + it[2] + b"\r\n"
            return out + b"END\r\n"
        if kind == "delete":
            _, k, noreply = req
            it = s.live(k)
            if it is not None:
                del s.items[k]
            return b"" if noreply else (b"DELETED\r\n" if it is not None else b"NOT_FOUND\r\n")
        if kind == "arith":
            _, incr, k, d, noreply = req
            it = s.live(k)
            if it is None:
                return b"" if noreply else b"NOT_FOUND\r\n"
            cur = _nat(it[2])
            if cur is None or cur >= 2 ** 64:
                return b"" if noreply else b"CLIENT_ERROR cannot increment or decrement non-numeric value\r\n"
            new = (cur + d) % (2 ** 64) if incr else max(0, cur - d)
            it[2] = str(new).encode()
            it[3] = s.next_cas()
            return b"" if noreply else it[2] + b"\r\n"
        if kind == "touch":
            _, k, e, noreply = req
            it = s.live(k)
            if it is not None:
                it[1] = s.abs_exp(e)
            return b"" if noreply else (b"TOUCHED\r\n" if it is not None else b"NOT_FOUND\r\n")
        if kind == "flush_all":
            _, delay, noreply = req
            if not delay:
                s.items.clear()
                s.flush_at = None
            else:
                s.flush_at = s.now + delay
            return b"" if noreply else b"OK\r\n"
        if kind == "version":
            return b"VERSION 1.6.21-ref\r\n"
        if kind == "quit":
            self.closed_conns.add(cid)
            return b""
        if kind == "stats":
            return self.stats(req[1])
        if kind == "cache_memlimit":
            _, mb, noreply = req
            self.memlimit_mb = mb
            return b"" if noreply else b"OK\r\n"
        if kind == "shutdown":
            # a server started without --enable-shutdown (the default): the client sees a line starting with `ERROR`
            return b"ERROR: shutdown not enabled\r\n"
        return b"ERROR\r\n"

    def stats(self, args):
        """`stats [items | slabs | sizes | settings | cachedump <slab> <limit> | reset]`, deterministic (keys in sorted order).
        The values cover every converter of pymemcache's STAT_TYPES (bytes, float, 0/1 booleans, octal, yes/no) and the default int."""
        s = self.store
        live = sorted(k for k in list(s.items) if s.live(k) is not None)

        def stat(lines):
            return b"".join(b"STAT " + k + b" " + v + b"\r\n" for k, v in lines) + b"END\r\n"
        if not args:
            return stat([(b"pid", b"1"), (b"version", b"1.6.21-ref"), (b"rusage_user", b"0.250000"), (b"rusage_system", b"0.125000"),
                         (b"curr_items", str(len(live)).encode()), (b"hash_is_expanding", b"0"), (b"slab_reassign_running", b"0"),
                         (b"limit_maxbytes", str(getattr(self, "memlimit_mb", 64) * 1024 * 1024).encode())])
        sub = args[0]
        if sub == b"items" and len(args) == 1:
            return stat([(b"items:1:number", str(len(live)).encode()), (b"items:1:age", b"0")] if live else [])
        if sub in (b"slabs", b"sizes") and len(args) == 1:
            return stat([(b"active_slabs", b"1" if live else b"0"), (b"total_malloced", b"1048576")] if sub == b"slabs" else [])
        if sub == b"settings" and len(args) == 1:
            return stat([(b"maxconns", b"1024"), (b"inter", b"NULL"), (b"growth_factor", b"1.25"), (b"stat_key_prefix", b":"), (b"umask", b"700"),
                         (b"detail_enabled", b"no"), (b"cas_enabled", b"yes"), (b"auth_enabled_sasl", b"no"), (b"maxconns_fast", b"yes"),
                         (b"slab_reassign", b"yes"), (b"slab_automove", b"1")])
        if sub == b"cachedump":
            if len(args) != 3 or _nat(args[1]) is None or _nat(args[2]) is None:
                return b"CLIENT_ERROR bad command line\r\n"
            limit = _nat(args[2])
            keys = live if limit == 0 else live[:limit]
            return b"".join(b"ITEM " + k + b" [" + str(len(s.items[k][2])).encode() + b" b; " + str(max(s.items[k][1], 0)).encode() + b" s]\r\n"
                            for k in keys) + b"END\r\n"
        if sub == b"reset" and len(args) == 1:
            return b"RESET\r\n"
        return b"ERROR\r\n"
