"""C04 — what is stored is what is fetched: values and keys survive the round trip.
Real `Client` (all serializers) against the reference memcached behind the fake socket, replies delivered in random
pieces.  Oracle: the value handed to the store call (model-free), the reference server's contents, and — for the
default serializer — the Lean client∘wire∘server model (`cs.call`)."""
import pickle

from clientlib import call_tokens, canon_value, cfg_tok, run_call
from common import Ctx, hx, import_repo
from fakesock import FakeSocketModule, World
from refserver import RefServer


class IntSub(int): pass
class StrSub(str): pass
class BytesSub(bytes): pass
class DictSub(dict): pass


def values(ctx):
    rng = ctx.rng
    vs = []
    for n in (0, 1, 2, 4094, 4095, 4096, 4097, 4098, 8190, 8191, 8192, 8193, 8194):
        vs.append(bytes(rng.randrange(256) for _ in range(n)))
    vs += [b"abc\r", b"\r\r", b"x\r\r\r", b"tail\r\n\r", b"\r\n", b"\r", b"\n", b"END\r\n", b"a\r\nEND\r\n", b"VALUE k 0 1\r\nx\r\nEND\r\n", b"x" * 4094 + b"\r\n", b"\r\n" * 2048,
           b"STORED\r\n", b"\x00" * 100, bytes(range(256))]
    vs += [bytes(rng.randrange(256) for _ in range(65536))]
    if ctx.thorough:
        vs += [bytes(rng.randrange(256) for _ in range(1 << 20)), b"\r\n" * (1 << 19)]
    return vs


class Envelope:
    """a value whose pickling itself stores something through the serializer: the re-entrant form of two threads pickling at the same time"""
    def __init__(self, body):
        self.body = body

    def __eq__(self, o):
        return type(o) is Envelope and o.body == self.body

    def __repr__(self):
        return "Envelope(%r)" % (self.body,)

    def __reduce__(self):
        from pymemcache import serde as _serde
        payload, flags = _serde.pickle_serde.serialize("inner", self.body)
        return (_open_envelope, (payload, flags))


def _open_envelope(payload, flags):
    from pymemcache import serde as _serde
    if isinstance(payload, str):
        payload = payload.encode("ascii")
    return Envelope(_serde.pickle_serde.deserialize("inner", payload, flags))


def objects():
    return [Envelope({"user": "bob", "visits": [1, 2]}), [Envelope("inner text"), 7], b"bytes", "text", "é€\U0001F600", 0, 1, -1, 10 ** 40, -10 ** 400, True, False, None, 1.5, float("inf"), [1, "a", b"b", None],
            {"k": [1, 2, {"n": (1, 2)}]}, (1, (2, (3,))), {1, 2}, frozenset({"a"}), IntSub(5), StrSub("s"), BytesSub(b"b"), DictSub(a=1),
            "x" * 5000, b"y" * 5000, list(range(300)), "", b"", 2 ** 64, complex(1, 2),
            bytes((i * 197 + (i >> 3) * 31 + i * i) % 256 for i in range(1500)), __import__("zlib").compress(b"already compressed" * 200) * 1,
            __import__("os").urandom(0) + bytes(__import__("random").Random(7).randrange(256) for _ in range(2000))]


def chunker(rng, mode):
    def f(reply):
        if not reply:
            return []
        if mode == "one":
            return [reply]
        if mode == "bytes" and len(reply) < 3000:
            return [reply[i:i + 1] for i in range(len(reply))]
        if mode == "crlf":
            # cut exactly between every CR and LF (and nowhere else)
            out, start = [], 0
            for i in range(1, len(reply)):
                if reply[i - 1:i] == b"\r" and reply[i:i + 1] == b"\n":
                    out.append(reply[start:i])
                    start = i
            out.append(reply[start:])
            return [x for x in out if x]
        out, i = [], 0
        while i < len(reply):
            n = rng.choice([1, 2, 3, 7, 100, 4095, 4096, 4097, 10000])
            out.append(reply[i:i + n])
            i += n
            if rng.random() < .1:
                out.append(("eintr",))
        return out
    return f


def main(argv):
    ctx = Ctx("C04", argv)
    ctx.prepare_lean()
    import_repo()
    from pymemcache.client.base import Client
    from pymemcache import serde
    import bz2, lzma, zlib
    rng = ctx.rng
    ctx.rule = ("values: sizes 0,1,2,4094..4098,8190..8194,65536 (1 MiB in thorough) with random/adversarial content x store ops {set,add,replace,cas,set_many} x "
                "fetch ops {get,gets,gat,gats,get_many,gets_many} x prefixes x reply chunkings; str/int without serde under ascii/utf8; object corpus x "
                "PickleSerde protocols 0..5 x CompressedSerde(zlib,bz2,lzma,identity; thresholds 0,1,10,400); key collections list/tuple/set/dict-view/"
                "generator; non-trivial = distinct (serde, key, value digest, ops, chunking)")
    lines, metas = [], []
    n = 0

    def mk(serde_obj=None, pfx=b"", enc="ascii", mode="rand", au=False):
        srv = RefServer()
        ch = chunker(rng, mode)
        world = World(server=lambda conn, data: ch(srv.feed(conn.id, data)))
        world.tag = 0
        kw = {"serde": serde_obj} if serde_obj is not None else {}
        c = Client(("h", 1), socket_module=FakeSocketModule(world), key_prefix=pfx, encoding=enc, default_noreply=False, allow_unicode_keys=au, **kw)
        return srv, world, c

    # 1. bytes round trip, all store x fetch ops, default serde, + Lean model
    stores = ["set", "add", "replace", "cas", "set_many"]
    fetches = ["get", "gets", "gat", "gats", "get_many", "gets_many"]
    for vi, v in enumerate(values(ctx)):
        for si, st in enumerate(stores):
            pfx = [b"", b"ns:", b"p" * 200][(vi + si) % 3]
            key = ["k", b"kb", "key-" + "x" * 40][(vi + 2 * si) % 3]
            mode = ["rand", "one", "bytes", "crlf"][(vi + si) % 4]
            srv, world, c = mk(pfx=pfx, mode=mode)
            cfg = cfg_tok(dnr=False, pfx=pfx)
            hist = []
            if st in ("replace", "cas"):
                hist.append({"op": "set", "k": key, "v": b"old", "nr": False})
            if st == "cas":
                hist.append({"op": "gets", "k": key})
            if st == "set_many":
                hist.append({"op": "set_many", "items": [("other", b"o"), (key, v)], "nr": False})
            elif st == "cas":
                hist.append({"op": "cas", "k": key, "v": v, "cas": "FRESH", "nr": False})
            else:
                hist.append({"op": st, "k": key, "v": v, "nr": False})
            for f in fetches:
                hist.append({"op": f, "k": key, "ks": [key, "absent", "other"], "e": 0})
            results = []
            big = len(v) > 20000
            if not big:
                lines.append("srv.reset id=1")
                metas.append(None)
            for cdesc in hist:
                if cdesc.get("cas") == "FRESH":
                    tok = results[-1].split(":")[2] if results and results[-1].startswith("pair:") else "31"
                    cdesc["cas"] = bytes.fromhex(tok) if tok != "-" else b""
                r = run_call(c, cdesc)
                results.append(r)
                if not big:
                    lines.append(f"cs.call id=1 {cfg} {call_tokens(cdesc)}")
                    metas.append(({"value_len": len(v), "store": st, "call": cdesc["op"], "prefix": hx(pfx), "key": repr(key), "chunking": mode}, r))
            n += 1
            ctx.case((st, key, len(v), hash(v), pfx, mode), sample={"store": st, "value_len": len(v), "value_head": hx(v[:16]), "results": [r[:40] for r in results]} if n in (5, 40) else None)
            ctx.count("store:" + st)
            case = {"store": st, "key": repr(key), "prefix": hx(pfx), "value_len": len(v), "value_head": hx(v[:32]), "chunking": mode}
            store_res = results[len(hist) - len(fetches) - 1]
            if store_res not in ("True", "keys:[]"):
                ctx.violation("a store that must succeed did not report success", dict(case, result=store_res), tags=["store:" + st])
                continue
            wire_key = pfx + (key.encode() if isinstance(key, str) else key)
            it = srv.store.items.get(wire_key)
            if it is None or it[2] != v:
                ctx.violation("the server does not hold the stored value under prefix+key", dict(case, server_has=None if it is None else hx(it[2][:32])), tags=["store:" + st])
            for f, r in zip(fetches, results[-len(fetches):]):
                ctx.count("fetch:" + f)
                ok = True
                if f in ("get", "gat"):
                    ok = r == "b:" + hx(v)
                elif f in ("gets", "gats"):
                    ok = r.startswith("pair:" + hx(v) + ":")
                elif f == "get_many":
                    want = {key: v}
                    if st == "set_many":
                        want["other"] = b"o"
                    ok = r == canon_value("get_many", want)
                else:
                    ok = r.startswith("casdict:{") and (f"={hx(v)}/" in r) and "absent" not in r
                if not ok:
                    ctx.violation("fetch after a successful store did not return the stored value (bit for bit) under the caller's key",
                                  dict(case, fetch=f, got=r[:120]), tags=["fetch:" + f])
            if any(world.would_block):
                ctx.violation("a call blocked waiting for bytes that were never sent", case)
    # 2. str / int without serde: encoded text comes back
    for enc in ("ascii", "utf8"):
        for v in ("text", "", "12", 5, -7, 10 ** 30, "é€"):
            srv, world, c = mk(enc=enc)
            r1 = run_call(c, {"op": "set", "k": "k", "v": v, "nr": False})
            r2 = run_call(c, {"op": "get", "k": "k"})
            ctx.case(("text", enc, repr(v)))
            ctx.count("no-serde-text")
            try:
                want = "b:" + hx(str(v).encode(enc))
            except UnicodeEncodeError:
                want = None
            case = {"encoding": enc, "value": repr(v), "set": r1, "get": r2}
            if want is None:
                if r1 != "exc:IllegalInput":
                    ctx.violation("unencodable text value was not rejected as illegal input", case)
            elif (r1, r2) != ("True", want):
                ctx.violation("str/int value did not come back as its encoded text", dict(case, want=want))
            lines += ["srv.reset id=1", f"cs.call id=1 {cfg_tok(utf8=(enc == 'utf8'), dnr=False)} {call_tokens({'op': 'set', 'k': 'k', 'v': v, 'nr': False})}",
                      f"cs.call id=1 {cfg_tok(utf8=(enc == 'utf8'), dnr=False)} op=get k=s:107"]
            metas += [None, ({"text": repr(v), "encoding": enc, "call": "set"}, r1), ({"text": repr(v), "encoding": enc, "call": "get"}, r2)]
    # 3. serializers: equal value of the same type
    serdes = [("pickle%d" % p, serde.PickleSerde(pickle_version=p)) for p in range(0, pickle.HIGHEST_PROTOCOL + 1)]
    for name, (cz, dz) in {"zlib": (zlib.compress, zlib.decompress), "bz2": (bz2.compress, bz2.decompress), "lzma": (lzma.compress, lzma.decompress),
                           "identity": (lambda b: b, lambda b: b)}.items():
        for thr in (0, 1, 10, 400):
            serdes.append((f"compressed-{name}-{thr}", serde.CompressedSerde(compress=cz, decompress=dz, min_compress_len=thr)))
    # the serializers as most applications use them: built with their default arguments, and the ready-made module-level instances
    serdes.append(("compressed-default-10", serde.CompressedSerde(min_compress_len=10)))
    serdes.append(("compressed-default-400", serde.CompressedSerde()))
    serdes.append(("compressed-module-instance-400", serde.compressed_serde))
    serdes.append(("pickle-module-instance", serde.pickle_serde))

    class Custom:
        def serialize(self, key, value):
            return repr(value).encode(), 77
        def deserialize(self, key, value, flags):
            assert flags == 77
            return eval(value.decode())
    serdes.append(("custom", Custom()))
    objs = objects()
    for sname, sd in serdes:
        for oi, o in enumerate(objs):
            if sname == "custom" and not isinstance(o, (int, str, bytes, list, tuple, type(None), float)) or (sname == "custom" and type(o) not in (int, str, bytes, list, tuple, type(None), bool)):
                continue
            if not ctx.thorough and sname.startswith("compressed") and oi % 2 and not sname.endswith("-10"):
                continue
            srv, world, c = mk(serde_obj=sd, pfx=b"s:")
            try:
                r1 = c.set("k", o, noreply=False)
                got = c.get("k")
                gm = c.get_many(["k", "zz"])
                err = None
            except Exception as e:
                r1 = got = gm = None
                err = repr(e)[:120]
            ctx.case(("serde", sname, oi))
            ctx.count("serde:" + sname.split("-")[0])
            case = {"serde": sname, "value": repr(o)[:60], "type": type(o).__name__}
            tags = ["serde:" + sname.split("-")[0]]
            if isinstance(o, int) and not isinstance(o, bool) and len(str(o)) > 0 and sname.startswith("compressed"):
                tags.append("int-value")
            if err is not None:
                ctx.violation("store/fetch through the serializer raised", dict(case, error=err), tags=tags)
            elif r1 is not True or got != o or type(got) is not type(o) or gm != {"k": o} or type(gm["k"]) is not type(o):
                ctx.violation("value did not come back equal and of the same type", dict(case, got=repr(got)[:60], got_type=type(got).__name__), tags=tags)
    # 3a. values the serializer may REFUSE to store (text that has no UTF-8 form: lone surrogates, as os.fsdecode() produces for undecodable file
    #     names): the property speaks of what happens after a successful store - if the store is accepted the value must come back, equal
    maybe_refused = ["\udc80", "caf\udce9.txt", "a\ud800b", "\udfff" * 3, ["\udc80", 1], {"name": "caf\udce9"}, ("\ud800",)]
    for sname, sd in serdes:
        if sname == "custom":
            continue
        for oi, o in enumerate(maybe_refused):
            srv, world, c = mk(serde_obj=sd, pfx=b"s:")
            ctx.case(("serde-maybe-refused", sname, oi))
            case = {"serde": sname, "value": ascii(o)[:60], "type": type(o).__name__}
            try:
                r1 = c.set("k", o, noreply=False)
            except Exception as e:
                ctx.count("store refused: " + type(e).__name__)
                continue
            ctx.count("store accepted (value without a UTF-8 form)")
            try:
                got = c.get("k")
                gm = c.get_many(["k", "zz"])
            except Exception as e:
                ctx.violation("the store was accepted but the fetch raised", dict(case, error=repr(e)[:120]), tags=["serde:" + sname.split("-")[0], "accepted-then-lost"])
                continue
            if r1 is not True or got != o or type(got) is not type(o) or gm != {"k": o}:
                ctx.violation("value did not come back equal and of the same type", dict(case, got=ascii(got)[:60], got_type=type(got).__name__), tags=["serde:" + sname.split("-")[0]])
    # 3c. every way of storing through a serializer (the flags the serializer chose must travel with the item whichever verb carried it: add, replace,
    #     cas after gets, append-less), and values that are LARGE before compression but small after it (the item limit applies to what is stored)
    big = [b"\x00" * ((1 << 20) + 1), bytes(range(256)) * 12289, "a" * 1_400_000, list(range(150_000)), {"blob": b"z" * (2 << 20), "n": 1}]
    verb_objs = ["text \u20ac", 0, -12, 10 ** 30, {"k": [1, 2]}, None, True, 1.5, b"raw", b"r" * 3000, "t" * 3000, (1, "x"), IntSub(5)]
    for sname, sd in serdes:
        if sname == "custom":
            continue
        for verb in ("add", "replace", "cas", "set_many", "prepend-free"):
            if not ctx.thorough and sname.startswith("compressed") and not sname.endswith(("-10", "-0")):
                continue
            if "module-instance" in sname:
                continue
            for oi, o in enumerate(verb_objs):
                if verb == "prepend-free":
                    continue
                srv, world, c = mk(serde_obj=sd, pfx=b"s:", mode="one" if oi % 2 else "rand")
                ctx.case(("serde-verb", sname, verb, oi))
                ctx.count("serde-verb:" + verb)
                case = {"serde": sname, "stored_with": verb, "value": repr(o)[:60], "type": type(o).__name__}
                try:
                    if verb == "add":
                        r1 = c.add("k", o, noreply=False)
                    elif verb == "replace":
                        c.set("k", b"old", noreply=False)
                        r1 = c.replace("k", o, noreply=False)
                    elif verb == "cas":
                        c.set("k", b"old", noreply=False)
                        _, tok_ = c.gets("k")
                        r1 = c.cas("k", o, tok_) if oi % 2 else c.cas("k", o, tok_, noreply=False)
                    else:
                        r1 = c.set_many({"k": o, "j": b"other"}, noreply=False) == []
                    got = c.get("k")
                    gm = c.gets_many(["k"])
                except Exception as e:
                    ctx.violation("store/fetch through the serializer raised", dict(case, error=repr(e)[:120]), tags=["serde:" + sname.split("-")[0], "serde-verb"])
                    continue
                if r1 is not True or got != o or type(got) is not type(o) or set(gm) != {"k"} or gm["k"][0] != o or type(gm["k"][0]) is not type(o):
                    ctx.violation("value did not come back equal and of the same type", dict(case, store_result=repr(r1), got=repr(got)[:60], got_type=type(got).__name__),
                                  tags=["serde:" + sname.split("-")[0], "serde-verb"])
        if sname in ("pickle%d" % pickle.HIGHEST_PROTOCOL, "pickle0", "compressed-zlib-10", "compressed-zlib-400", "compressed-default-10", "compressed-module-instance-400") or (ctx.thorough and sname.startswith("compressed") and sname.endswith("-10")):
            for oi, o in enumerate(big):
                if sname == "pickle0" and oi != 3:
                    continue
                srv, world, c = mk(serde_obj=sd, pfx=b"s:", mode="one")
                ctx.case(("serde-big", sname, oi))
                ctx.count("serde-big-values")
                case = {"serde": sname, "value": f"{type(o).__name__} of len {len(o)}", "type": type(o).__name__}
                try:
                    r1 = c.set("k", o, noreply=False)
                    got = c.get("k")
                except Exception as e:
                    ctx.violation("store/fetch through the serializer raised", dict(case, error=repr(e)[:120]), tags=["serde:" + sname.split("-")[0], "big-value"])
                    continue
                if r1 is not True or type(got) is not type(o) or got != o:
                    ctx.violation("value did not come back equal and of the same type", dict(case, got=f"{type(got).__name__}" + (f" of len {len(got)}" if hasattr(got, "__len__") else "")),
                                  tags=["serde:" + sname.split("-")[0], "big-value"])
    # 3d. ignore_exc: a fetch that fails on the client's side is reported as a miss - and the stores and fetches that follow still mean what they say
    from faultrun import Scripted
    from pymemcache.client.base import PooledClient
    for kind_ in ("Client", "Pooled"):
        for fault_ in ({"recv_fault": (0, "timeout")}, {"recv_fault": (1, "timeout"), "chunk": "bytes"}, {"mutation": "garbage-line"}, {"mutation": "non-numeric-size"}):
            for nr_ in (None, False):
                S_ = Scripted(rng)
                kw_ = dict(socket_module=S_.sm, ignore_exc=True, default_noreply=True)
                c_ = Client(("h", 1), **kw_) if kind_ == "Client" else PooledClient(("h", 1), max_pool_size=1, **kw_)
                ctx.case(("ignored-fetch-failure", kind_, repr(fault_), nr_))
                ctx.count("ignored fetch failures followed by store and fetch")
                case = {"class": kind_, "fetch_fault": repr(fault_), "noreply_of_the_second_store": nr_}
                try:
                    S_.begin_call(0, {})
                    c_.set("k", b"v1-old", noreply=False)
                    S_.begin_call(1, dict(fault_))
                    miss_ = c_.get("k")
                    S_.begin_call(2, {})
                    c_.set("k", b"v2-new", noreply=nr_)
                    S_.begin_call(3, {})
                    got_ = c_.get("k")
                    S_.begin_call(4, {})
                    got2_ = c_.get_many(["k", "zz"])
                except Exception as e:
                    ctx.violation("store/fetch raised after an ignored fetch failure", dict(case, error=repr(e)[:100]), tags=["ignored-fetch-failure"])
                    continue
                if got_ != b"v2-new" or got2_ != {"k": b"v2-new"}:
                    ctx.violation("after a fetch failure that was ignored, a later fetch does not return the value stored last", dict(case, failed_fetch_returned=repr(miss_), got=repr(got_), get_many=repr(got2_)[:60]),
                                  tags=["ignored-fetch-failure"])
    # 3b. one set_many with values of DIFFERENT kinds (every item carries its own serializer flags), in several orders, fetched back one by one
    #     and together
    mixed = [("i", 7), ("b", b"raw bytes"), ("t", "text \u00e9"), ("d", {"k": [1, 2]}), ("z", 0), ("e", b""), ("n", None), ("f", 1.5), ("big", 10 ** 30)]
    orders = [mixed, mixed[::-1], mixed[3:] + mixed[:3], [mixed[1], mixed[0], mixed[2]], [mixed[3], mixed[1]], [mixed[0], mixed[1]]]
    for sname, sd in serdes:
        if sname == "custom" or (not ctx.thorough and sname.startswith("compressed") and not sname.endswith(("-10", "-0"))):
            continue
        for oi, order in enumerate(orders):
            srv, world, c = mk(serde_obj=sd, pfx=b"m:")
            ctx.case(("serde-mixed", sname, oi))
            ctx.count("serde-mixed-set_many")
            case = {"serde": sname, "set_many_items_in_order": [repr(v_)[:20] for _, v_ in order]}
            try:
                failed = c.set_many(dict(order), noreply=False)
                singles = {k_: c.get(k_) for k_, _ in order}
                gm = c.get_many([k_ for k_, _ in order])
                gsm = {k_: v_[0] for k_, v_ in c.gets_many([k_ for k_, _ in order]).items()}
            except Exception as e:
                ctx.violation("store/fetch through the serializer raised", dict(case, error=repr(e)[:120]), tags=["serde:" + sname.split("-")[0], "mixed-set_many"])
                continue
            for k_, v_ in order:
                for how, got in (("get", singles.get(k_)), ("get_many", gm.get(k_)), ("gets_many", gsm.get(k_))):
                    if failed or got != v_ or type(got) is not type(v_):
                        ctx.violation("a value stored by set_many together with values of other kinds did not come back equal and of the same type",
                                      dict(case, key=k_, stored=repr(v_)[:40], fetched_by=how, got=repr(got)[:40], got_type=type(got).__name__),
                                      tags=["serde:" + sname.split("-")[0], "mixed-set_many"])
                        break
                else:
                    continue
                break
    # 4. key collections and key remapping
    def gen_keys(kind, ks):
        if kind == "list": return list(ks)
        if kind == "tuple": return tuple(ks)
        if kind == "set": return set(ks)
        if kind == "dictview": return dict.fromkeys(ks).keys()
        if kind == "iterator": return iter(list(ks))
        if kind == "generator": return (k for k in ks)
        if kind == "map": return map(lambda k: k, ks)
    keysets = [["a"], ["a", "b", "c"], ["a", "missing", "c"], [b"a", "b"], ["k%d" % i for i in range(40)], ["missing1", "missing2"],
               # a key named more than once (also before later keys, also an absent one), and one key in both spellings
               ["a", "a", "b"], ["missing", "missing", "a", "b"], ["b", "a", "b", "c", "a"], ["a", b"a", "c"], [b"c", "a", "c", "b"]]
    from pymemcache.client.base import PooledClient as _Pooled
    for pfx in (b"", b"pre:"):
        for ks in keysets:
            for kind in ("list", "tuple", "set", "dictview", "iterator", "generator", "pooled-list", "pooled-iterator", "pooled-generator", "pooled-map"):
                dup = len({(k.encode() if isinstance(k, str) else k) for k in ks}) != len(ks)
                if dup and kind in ("set", "dictview"):
                    continue          # (those collections cannot hold a key twice)
                for op in ("get_many", "gets_many"):
                    srv, world, c = mk(pfx=pfx)
                    if kind.startswith("pooled"):
                        c = _Pooled(("h", 1), socket_module=FakeSocketModule(world), key_prefix=pfx, default_noreply=False, max_pool_size=2)
                    present = [k for k in ks if "missing" not in str(k)]
                    for k in present:
                        c.set(k, b"val-" + (k.encode() if isinstance(k, str) else k), noreply=False)
                    try:
                        r = getattr(c, op)(gen_keys(kind.replace("pooled-", ""), ks))
                        err = None
                    except Exception as e:
                        r, err = None, type(e).__name__
                    ctx.case(("keys", pfx, tuple(ks), kind, op))
                    ctx.count("collection:" + kind)
                    case = {"op": op, "collection": kind, "keys": repr(ks)[:80], "prefix": hx(pfx)}
                    tags = ["op:" + op, "collection:" + kind]
                    want = {k: b"val-" + (k.encode() if isinstance(k, str) else k) for k in present}
                    mixed_spelling = len({(k.encode() if isinstance(k, str) else k) for k in present}) != len(set(present))
                    if err is not None:
                        ctx.violation("multi-key fetch raised for a legal key collection", dict(case, error=err), tags=tags)
                    else:
                        got = {k: (v[0] if op == "gets_many" else v) for k, v in r.items()}
                        if mixed_spelling:
                            # one memcached key given as str and as bytes: either spelling may name it in the result; its value must be its own
                            got = {(k.encode() if isinstance(k, str) else k): v for k, v in got.items()}
                            want = {(k.encode() if isinstance(k, str) else k): v for k, v in want.items()}
                        if got != want or any(type(k) is not type(k0) for k, k0 in zip(sorted(map(repr, got)), sorted(map(repr, want)))):
                            ctx.violation("multi-key fetch did not return every present key exactly once under the caller's key with its own value",
                                          dict(case, got=repr(got)[:120]), tags=tags)
                    sent = b"".join(d for cn in world.conns for _, d in cn.sent)
                    if pfx and any((b" " + k.encode() + b"\r\n") in sent or (b" " + k.encode() + b" ") in sent for k in ks if isinstance(k, str) and len(k) > 1):
                        ctx.violation("an un-prefixed key appeared on the wire", dict(case, sent=hx(sent[:100])), tags=tags)
    # 4b. keys made of unusual bytes: every byte value a key may contain (all but NUL and the six white-space bytes) inside a key, and text whose UTF-8 form has
    #     bytes that *text* functions treat as separators (a0, 85, 1c-1f) or that has more than one Unicode spelling - every key keeps its own value, alone and
    #     next to its neighbours, through every fetch operation
    odd_bytes = [b"k" + bytes([b_]) + b"y" for b_ in range(1, 256) if b_ not in (0x20, 0x09, 0x0a, 0x0b, 0x0c, 0x0d)]
    odd_text = ["voil\u00e0", "\u0105", "a\u00a0b", "a\u0085b", "a\u2028b", "a\u3000b", "caf\u00e9", "cafe\u0301", "A\u030a", "\u00c5", "\u212b", "\u1100\u1161", "\uac00", "unit\x1fsep", "fs\x1cx"]
    for au_, corpus in ((False, odd_bytes[:125]), (False, odd_bytes[125:]), (True, odd_text), (True, [k_.decode("latin-1").encode("utf8") for k_ in odd_bytes[120:]][:60])):
        for pfx in (b"", b"pre:"):
            srv, world, c = mk(pfx=pfx, au=au_, enc="utf8")
            vals_ = {k_: b"own-" + str(i_).encode() for i_, k_ in enumerate(corpus)}
            ctx.case(("odd-keys", au_, pfx, len(corpus), repr(corpus[0])))
            ctx.count("keys of unusual bytes (batches)")
            case = {"allow_unicode_keys": au_, "prefix": hx(pfx), "keys": len(corpus), "first_key": repr(corpus[0])}
            try:
                for k_, v_ in vals_.items():
                    c.set(k_, v_, noreply=False)
                single = {k_: (c.get(k_), c.gets(k_)[0]) for k_ in corpus}
                many, many_cas = c.get_many(list(corpus)), c.gets_many(list(corpus))
            except Exception as e:
                ctx.violation("store or fetch raised for legal keys made of unusual bytes", dict(case, error=repr(e)[:100]), tags=["odd-keys"])
                continue
            bad_ = [k_ for k_ in corpus if single[k_] != (vals_[k_], vals_[k_]) or many.get(k_) != vals_[k_] or many_cas.get(k_, (None,))[0] != vals_[k_]]
            if bad_ or len(many) != len(corpus) or len(many_cas) != len(corpus):
                k_ = bad_[0] if bad_ else None
                ctx.violation("a key made of unusual bytes did not come back with its own value under the caller's key",
                              dict(case, key=repr(k_), stored=repr(vals_.get(k_)), get_gets=repr(single.get(k_)), get_many=repr(many.get(k_)), n_get_many=len(many)), tags=["odd-keys"])
    # 5. the prefix is a faithful namespace even for keys that themselves start with the prefix bytes
    for pfx in (b"user:", b"p", b"ns:"):
        for k in (b"42", "42", b"x"):
            k2 = pfx + k if isinstance(k, bytes) else pfx.decode() + k
            srv, world, c = mk(pfx=pfx)
            case = {"prefix": hx(pfx), "keys": [repr(k), repr(k2)]}
            ctx.case(("namespace", pfx, repr(k)))
            ctx.count("prefix-namespace")
            try:
                c.set(k, b"value-of-k", noreply=False)
                c.set(k2, b"value-of-prefix+k", noreply=False)
                g1, g2 = c.get(k), c.get(k2)
                gm = c.get_many([k, k2])
            except Exception as e:
                ctx.violation("store/fetch raised for keys that start with the prefix", dict(case, error=repr(e)[:80]), tags=["prefix-namespace"])
                continue
            wk1 = pfx + (k if isinstance(k, bytes) else k.encode())
            wk2 = pfx + (k2 if isinstance(k2, bytes) else k2.encode())
            if (g1, g2) != (b"value-of-k", b"value-of-prefix+k") or gm != {k: b"value-of-k", k2: b"value-of-prefix+k"}:
                ctx.violation("a key that starts with the prefix bytes returned another key's value / was lost in get_many", dict(case, got=[repr(g1), repr(g2), repr(gm)[:80]]),
                              tags=["prefix-namespace"])
            if set(srv.store.items) != {wk1, wk2}:
                ctx.violation("the prefix was not applied on the wire to a key that starts with the prefix bytes", dict(case, server_keys=sorted(map(hx, srv.store.items))),
                              tags=["prefix-namespace"])
    # 6. the namespace holds over a history on one client: administrative calls (whose arguments are not keys and carry no prefix) and
    #    earlier uses of the same string do not change where a key is stored or found; a second client with the same prefix sees the value
    for pfx in (b"ns:", b"p"):
        for word in ("items", "64", b"slabs", "settings"):
            for pre in ("stats", "cache_memlimit", "get-first", "none"):
                srv, world, c = mk(pfx=pfx)
                case = {"prefix": hx(pfx), "key": repr(word), "earlier_call": pre}
                ctx.case(("history-namespace", pfx, repr(word), pre))
                ctx.count("prefix-namespace-histories")
                txt = word.decode() if isinstance(word, bytes) else word
                if pre == "cache_memlimit" and not txt.isdigit():
                    continue
                try:
                    if pre == "stats":
                        c.stats(word)
                    elif pre == "cache_memlimit":
                        c.cache_memlimit(int(txt))
                    elif pre == "get-first":
                        c.get(word)
                except Exception:
                    pass            # the server may not know that stats section: irrelevant here
                try:
                    c.set(word, b"the-value", noreply=False)
                    got = c.get(word)
                    c2 = Client(("h", 1), socket_module=FakeSocketModule(world), key_prefix=pfx, default_noreply=False)
                    got2 = c2.get(word)
                except Exception as e:
                    ctx.violation("store/fetch raised after an administrative call", dict(case, error=repr(e)[:80]), tags=["prefix-namespace", "history"])
                    continue
                wk = pfx + (word if isinstance(word, bytes) else word.encode())
                if got != b"the-value" or got2 != b"the-value" or set(srv.store.items) != {wk}:
                    ctx.violation("after an earlier call on the same client a key was not stored / found under prefix+key",
                                  dict(case, got=repr(got), other_client_got=repr(got2), server_keys=sorted(map(hx, srv.store.items)), want=hx(wk)), tags=["prefix-namespace", "history"])
    # Lean model comparison (default serde cases)
    if ctx.lean.build_ok:
        outs = ctx.driver.batch(lines)
        for m, o in zip(metas, outs):
            if m is None:
                continue
            case, real = m
            if not o.startswith("ok res=" + real + " "):
                ctx.disagreement("Lean client∘server model differs from the implementation", dict(case, impl=real[:120], model=o[:120]), theorem="C04_store_fetch_roundtrip")
    ctx.assumptions = ["faithful memcached = the reference server (validated against the Lean server model by C05's check)",
                       "pickle, zlib, bz2, lzma are left-inverse pairs (exercised, not proved)"]
    ctx.finish()
