"""C16 — PooledClient, single-server HashClient and RetryingClient behave like Client.
Every key-addressed operation x argument grid x shared-configuration grid x server state is run on a plain `Client` and on
each wrapper stack of the real code against identical reference servers; the command streams the servers received, the
socket timeouts used and the results / exception classes must be identical.  The Lean side (Props/C16.lean) proves the
forwarding property over tables regenerated from the source on every run (signatures, inner-call argument lists,
constructor options)."""
import itertools

from clientlib import CASDEFAULT, DEFAULT, canon_exc, canon_value
from common import Ctx, hx, import_repo
from faultrun import Scripted


def stacks(mods):
    Client, PooledClient, HashClient, RetryingClient = mods

    def mk_client(S, kw):
        return Client(("h", 1), socket_module=S.sm, **kw)

    def mk_pooled(S, kw):
        return PooledClient(("h", 1), socket_module=S.sm, max_pool_size=2, **kw)

    def mk_hash(S, kw):
        return HashClient([("h", 1)], socket_module=S.sm, **kw)

    def mk_hash_pooled(S, kw):
        return HashClient([("h", 1)], socket_module=S.sm, use_pooling=True, max_pool_size=2, **kw)

    def mk_hash_zero(S, kw):
        # a hasher whose scores are all 0 (the lowest value the hash can take): the single server must still win
        from pymemcache.client.rendezvous import RendezvousHash
        import functools
        return HashClient([("10.0.0.1", 1)], socket_module=S.sm, hasher=functools.partial(RendezvousHash, hash_function=lambda x, seed: 0), **kw)

    def mk_hash_spelled(S, kw):
        # the single server written as a string that differs from its normalised form (`unix:` prefix; also a bare host name, a bracketed IPv6 address)
        return HashClient(["unix:/var/run/mc.sock"], socket_module=S.sm, **kw)

    def mk_hash_spelled_pooled(S, kw):
        return HashClient(["unix:/var/run/mc.sock"], socket_module=S.sm, use_pooling=True, max_pool_size=2, **kw)

    def mk_retry(S, kw):
        return RetryingClient(Client(("h", 1), socket_module=S.sm, **kw), attempts=2)

    def mk_retry_pooled(S, kw):
        return RetryingClient(PooledClient(("h", 1), socket_module=S.sm, **kw), attempts=3)
    return [("Client", mk_client), ("PooledClient", mk_pooled), ("HashClient", mk_hash), ("HashClient+pool", mk_hash_pooled), ("HashClient(score 0)", mk_hash_zero), ("HashClient(unix: spelling)", mk_hash_spelled),
            ("HashClient(unix: spelling)+pool", mk_hash_spelled_pooled), ("RetryingClient", mk_retry),
            ("RetryingClient(Pooled)", mk_retry_pooled)]


def op_grid():
    G = []
    for nr in (None, True, False):
        for exp in (None, 100):
            for fl in (None, 5):
                kw = {}
                if nr is not None: kw["noreply"] = nr
                if exp is not None: kw["expire"] = exp
                if fl is not None: kw["flags"] = fl
                for op in ("set", "add", "replace", "append", "prepend"):
                    G.append((op, ("K", "VAL"), dict(kw)))
                G.append(("cas", ("K", "VAL", "CAS"), dict(kw)))
                G.append(("set_many", ({"K": "VAL", "k2": "VAL"},), dict(kw)))
    for nr in (None, True, False):
        kw = {} if nr is None else {"noreply": nr}
        G.append(("delete", ("K",), dict(kw)))
        G.append(("delete_many", (["K", "k2"],), dict(kw)))
        G.append(("incr", ("K", 3), dict(kw)))
        G.append(("decr", ("K", 3), dict(kw)))
        G.append(("touch", ("K",), dict(kw, expire=50)))
        G.append(("touch", ("K", 60), dict(kw)))
    # an optional argument given EXPLICITLY as None (what a caller that forwards its own optional parameters does): the wrappers must hand on what
    # they were given - None is not "leave it out" (noreply=None means "the client's default" only where the plain Client says so)
    for op in ("set", "add", "replace", "append", "prepend"):
        for kw in ({"noreply": None}, {"expire": None}, {"flags": None}, {"expire": None, "noreply": False}):
            G.append((op, ("K", "VAL"), dict(kw)))
    for kw in ({"noreply": None}, {"expire": None}, {"flags": None}):
        G.append(("cas", ("K", "VAL", "CAS"), dict(kw)))
        G.append(("set_many", ({"K": "VAL", "k2": "VAL"},), dict(kw)))
    for op, args in (("delete", ("K",)), ("delete_many", (["K", "k2"],)), ("incr", ("K", 3)), ("decr", ("K", 3)), ("touch", ("K", 60))):
        G.append((op, args, {"noreply": None}))
    G.append(("incr", ("K", 3, None), {}))
    G.append(("touch", ("K",), {"expire": None, "noreply": False}))
    G.append(("touch", ("K", None), {"noreply": False}))
    for op in ("gat", "gats"):
        G.append((op, ("K", None), {}))
        G.append((op, ("K",), {"expire": None}))
        G.append((op, ("K",), {"expire": None, "default": DEFAULT}))
    G.append(("get", ("K", None), {}))
    G.append(("get", ("K",), {"default": None}))
    G.append(("gets", ("K",), {"default": None, "cas_default": None}))
    G.append(("set", ("K", "VAL", 10, False, 3), {}))          # all positional
    G.append(("cas", ("K", "VAL", "CAS", 10, False, 3), {}))
    G.append(("incr", ("K", 2, False), {}))
    G.append(("get", ("K",), {}))
    G.append(("get", ("K", DEFAULT), {}))
    G.append(("get", ("K",), {"default": DEFAULT}))
    G.append(("gets", ("K",), {}))
    G.append(("gets", ("K",), {"default": DEFAULT, "cas_default": CASDEFAULT}))
    G.append(("gets", ("K", DEFAULT, CASDEFAULT), {}))
    G.append(("gat", ("K",), {}))
    G.append(("gat", ("K", 30), {}))
    G.append(("gat", ("K",), {"expire": 30, "default": DEFAULT}))
    G.append(("gat", ("K", 30, DEFAULT), {}))
    G.append(("gats", ("K",), {}))
    G.append(("gats", ("K", 30), {}))
    G.append(("gats", ("K",), {"expire": 30, "default": DEFAULT, "cas_default": CASDEFAULT}))
    G.append(("gats", ("K", 30, DEFAULT, CASDEFAULT), {}))
    G.append(("get_many", (["K", "k2", "zz"],), {}))
    G.append(("gets_many", (["K", "zz"],), {}))
    G.append(("get_many", ([],), {}))
    # a key listed more than once
    G.append(("get_many", (["K", "zz", "K", "k2", "zz"],), {}))
    G.append(("gets_many", (["K", "K"],), {}))
    G.append(("delete_many", (["K", "zz", "K"],), {"noreply": False}))
    # key collections that can be read only once (generator, iterator, map object)
    for m in ("get_many", "gets_many", "delete_many"):
        for coll in ("GEN", "ITER", "MAP"):
            G.append((m, (coll,), {"noreply": False} if m == "delete_many" else {}))
    # mapping protocol
    G.append(("__getitem__", ("K",), {}))
    G.append(("__setitem__", ("K", "VAL"), {}))
    G.append(("__delitem__", ("K",), {}))
    return G


def positional_grid(Client):
    """every key-addressed method called with its arguments given by POSITION, in the order of the plain Client's signature (the reference): all
    prefixes of the full argument list, with values that tell the parameters apart (noreply False against a default of True, flags 3, expire 10)"""
    import inspect
    by_name = {"key": ["K"], "value": ["VAL"], "cas": ["CAS"], "expire": [10], "noreply": [False, True], "flags": [3], "default": [DEFAULT], "cas_default": [CASDEFAULT],
               "keys": [["K", "k2"]], "values": [{"K": "VAL", "k2": "VAL"}]}
    G = []
    for m in ("set", "add", "replace", "append", "prepend", "cas", "set_many", "get", "gets", "gat", "gats", "get_many", "gets_many", "delete", "delete_many", "incr", "decr", "touch"):
        params = [p_ for p_ in inspect.signature(getattr(Client, m)).parameters.values() if p_.name != "self"]
        if any(p_.name not in by_name for p_ in params) and m not in ("incr", "decr"):
            continue            # a signature this grid does not know: the Lean signature table (regenerated from the source) is what notices that
        need = sum(1 for p_ in params if p_.default is inspect.Parameter.empty)
        for upto in range(need, len(params) + 1):
            choices = [([3] if (m in ("incr", "decr") and p_.name == "value") else by_name.get(p_.name, [None])) for p_ in params[:upto]]
            for combo in itertools.product(*choices):
                G.append((m, tuple(combo), {}))
    return G


def main(argv):
    ctx = Ctx("C16", argv)
    ctx.prepare_lean()
    import_repo()
    from pymemcache.client.base import Client, PooledClient
    from pymemcache.client.hash import HashClient
    from pymemcache.client.retrying import RetryingClient
    from pymemcache import serde
    rng = ctx.rng
    ST = stacks((Client, PooledClient, HashClient, RetryingClient))
    ctx.rule = ("every key-addressed method x argument grid (noreply/expire/flags/defaults by keyword and positionally) x configuration grid (key_prefix, default_noreply, "
                "encoding, allow_unicode_keys, serializer, timeouts) x server state (hit, miss, cas mismatch, non-numeric) x 5 wrapper stacks, each compared with a plain "
                "Client on an identical server; non-trivial = distinct (stack, config, state, method, arguments)")
    ctx.exhaustive = True
    cfgs = []
    for pfx in (b"", b"p:"):
        for dnr in (True, False):
            for enc, au, key, val in (("ascii", False, "key", "val"), ("utf8", True, "kéy", "café"), ("utf8", False, "key", "café"), ("ascii", False, "key", b"\xff\x00bytes")):
                for sd in (None, "pickle", "legacy-both", "legacy-deserializer-only", "legacy-serializer-only"):
                    if sd and sd.startswith("legacy") and (enc != "ascii" or isinstance(val, bytes) or pfx):
                        continue
                    for tmo in ((None, None), (1.5, 2.5), (None, 2.5), (1.5, None)):
                        if sd and sd.startswith("legacy") and tmo != (None, None):
                            continue
                        if ((tmo[0] is None) != (tmo[1] is None)) and (sd or enc != "ascii" or isinstance(val, bytes)):
                            continue          # only one of the two timeouts given: on the plain configurations
                        cfgs.append({"key_prefix": pfx, "default_noreply": dnr, "encoding": enc, "allow_unicode_keys": au, "_key": key, "_val": val, "_serde": sd, "_tmo": tmo})
    if not ctx.thorough:
        cfgs = [c for i, c in enumerate(cfgs) if i % 3 == 0 or c["encoding"] == "utf8" or str(c["_serde"]).startswith("legacy")
                or ((c["_tmo"][0] is None) != (c["_tmo"][1] is None) and c["default_noreply"])]
    states = ["hit", "miss", "cas-mismatch", "non-numeric", "numeric", "empty-value"]
    grid = op_grid()
    seen_calls = {(op, repr(a), repr(k_)) for op, a, k_ in grid}
    pos_extra = [g for g in positional_grid(Client) if (g[0], repr(g[1]), repr(g[2])) not in seen_calls]
    npos = len(pos_extra)
    grid += pos_extra
    n = 0
    for cfg in cfgs:
        kw = {k: v for k, v in cfg.items() if not k.startswith("_")}
        if cfg["_serde"] == "pickle":
            kw["serde"] = serde.PickleSerde()
        if cfg["_serde"] in ("legacy-both", "legacy-serializer-only"):
            kw["serializer"] = lambda key, value: ((b"S:" + value if isinstance(value, bytes) else ("S:" + str(value)).encode()), 5)
        if cfg["_serde"] in ("legacy-both", "legacy-deserializer-only"):
            kw["deserializer"] = lambda key, value, flags: ("D", flags, value)
        if cfg["_tmo"] != (None, None):
            kw["connect_timeout"], kw["timeout"] = cfg["_tmo"]
        K, VAL = cfg["_key"], cfg["_val"]
        for state in states:
            for gi, (op, args, okw) in enumerate(grid):
                if not ctx.thorough and state not in ("hit", "numeric") and (gi >= len(grid) - npos or None in okw.values() or None in args):
                    continue          # the all-positional and the explicit-None forms: two server states in the quick tier
                if not ctx.thorough and (n % 2) and op in ("add", "replace", "prepend", "decr"):
                    n += 1
                    continue
                n += 1
                ref = None
                for sname, mk in ST:
                    if op.startswith("__") and sname.startswith("HashClient"):
                        continue      # HashClient offers no subscript access at all: not an operation of that stack
                    S = Scripted(rng)
                    S.begin_call(0, {"chunk": "one"})
                    try:
                        obj = mk(S, kw)
                    except Exception as e:
                        outcome = ("ctor-exc:" + type(e).__name__, b"", [])
                        obj = None
                    if obj is not None:
                        # establish the server state through a plain raw feed (not through the client under test)
                        srv = S.server_for(type("C", (), {"addr": (("10.0.0.1", 1) if sname == "HashClient(score 0)" else "/var/run/mc.sock" if "unix:" in sname else ("h", 1)), "id": 999})())
                        wk = kw["key_prefix"] + K.encode("utf8")
                        if state in ("hit", "cas-mismatch"):
                            srv.feed(999, b"set " + wk + b" 0 0 3\r\nold\r\n")
                        elif state == "empty-value":
                            srv.feed(999, b"set " + wk + b" 0 0 0\r\n\r\n")
                        elif state == "non-numeric":
                            srv.feed(999, b"set " + wk + b" 0 0 1\r\nx\r\n")
                        elif state == "numeric":
                            srv.feed(999, b"set " + wk + b" 0 0 2\r\n41\r\n")
                        del srv.wire_log[:]
                        cas_tok = b"1" if state != "cas-mismatch" else b"777"

                        def sub(a):
                            if a == "K": return K
                            if a == "GEN": return (k_ for k_ in [K, "zz"])
                            if a == "ITER": return iter([K, "zz"])
                            if a == "MAP": return map(str, [K, "zz"])
                            if a == "VAL": return VAL
                            if a == "CAS": return cas_tok
                            if isinstance(a, dict): return {sub(k): sub(v) for k, v in a.items()}
                            if isinstance(a, list): return [sub(x) for x in a]
                            return a
                        a2 = tuple(sub(a) for a in args)
                        try:
                            r = getattr(obj, op)(*a2, **okw)
                            res = canon_value(op, r) if not (cfg["_serde"] and op in ("get", "gat", "get_many")) else "val:" + repr(r)[:80]
                            if cfg["_serde"] and op in ("gets", "gats", "gets_many"):
                                res = "val:" + repr(r)[:80]
                        except Exception as e:
                            res = canon_exc(e)
                        stream = b"".join(d for (_, _, d, _) in srv.wire_log)
                        tmos = sorted({repr(t) for c in S.world.conns for t in c.timeout_history})
                        outcome = (res, stream, tmos)
                    case = {"stack": sname, "config": {k: (hx(v) if isinstance(v, bytes) else v) for k, v in cfg.items()}, "state": state, "method": op,
                            "args": repr(args)[:80], "kwargs": repr(okw)}
                    if sname == "Client":
                        ref = outcome
                        ctx.case(("ref", repr(cfg), state, op, repr(args), repr(okw)), sample=dict(case, result=outcome[0][:60], sent=hx(outcome[1][:60])) if n in (50, 900) else None)
                        continue
                    ctx.case((sname, repr(cfg), state, op, repr(args), repr(okw)))
                    ctx.count("stack:" + sname)
                    same = outcome == ref
                    if not same and sname.startswith("RetryingClient") and outcome[0] == ref[0] and outcome[2] == ref[2] and ref[0].startswith("exc:") and ref[1]:
                        # a retried call repeats the plain client's bytes once per attempt (how often is C17's subject)
                        k, rem = divmod(len(outcome[1]), len(ref[1]))
                        same = rem == 0 and 1 <= k <= 3 and outcome[1] == ref[1] * k
                    if not same:
                        tags = ["stack:" + sname, "method:" + op]
                        if outcome[0].startswith("ctor-exc") or (cfg["encoding"] != "ascii" and sname.startswith(("PooledClient", "HashClient+pool", "RetryingClient(Pooled)"))):
                            tags.append("encoding-option")
                        if outcome[0] == "exc:TypeError":
                            tags.append("signature")
                        what = ("different result or error kind" if outcome[0] != ref[0] else "different commands sent to the server" if outcome[1] != ref[1]
                                else "different socket timeouts")
                        ctx.violation(f"{sname} behaves differently from a plain Client: {what}",
                                      dict(case, client={"result": ref[0][:80], "sent": hx(ref[1][:80]), "timeouts": ref[2]},
                                           stack={"result": outcome[0][:80], "sent": hx(outcome[1][:80]), "timeouts": outcome[2]}), tags=tags)
    # ---- short histories on ONE object per stack: an ordinary error in one call must not change how later calls behave ----------------
    H = [
        [("set", ("k", b"hello"), {"noreply": False}), ("incr", ("k", 1), {}), ("get", ("k",), {}), ("set", ("k", b"again"), {"noreply": False}), ("get", ("k",), {})],
        [("set", ("n", b"5"), {"noreply": False}), ("touch", ("n", "soon"), {"noreply": False}), ("get", ("n",), {}), ("incr", ("n", 2), {}), ("gets", ("n",), {})],
        [("get", ("bad key",), {}), ("set", ("k", b"1"), {"noreply": False}), ("get", ("k",), {})],
        [("set", ("k", b"x"), {"noreply": False}), ("decr", ("k", 1), {}), ("decr", ("k", 1), {}), ("delete", ("k",), {"noreply": False}), ("get", ("k",), {}), ("add", ("k", b"7"), {"noreply": False}),
         ("incr", ("k", 3), {})],
        [("cas", ("k", b"v", b"notanumber"), {}), ("set", ("k", b"v"), {"noreply": False}), ("gets", ("k",), {}), ("get_many", (["k", "z"],), {})],
        # a multi-key fetch that is refused half-way through its key list, then further multi-key fetches on the same object: they ask for their own keys only
        [("set", ("a", b"1"), {"noreply": False}), ("set", ("c", b"3"), {"noreply": False}), ("get_many", (["a", "not a key", "b"],), {}), ("get_many", (["c"],), {}),
         ("gets_many", (["c", "zz"],), {}), ("gets_many", (["a", "bad\nkey"],), {}), ("get_many", (["zz"],), {}), ("get_many", (["a", "c"],), {})],
        # delete_many whose LATER key is illegal: a plain Client refuses the call before anything is sent (HashClient deletes key by key: open finding C16-hash-delete_many-partial)
        [("set", ("a", b"1"), {"noreply": False}), ("set", ("c", b"3"), {"noreply": False}), ("delete_many", (["a", "no t"],), {"noreply": False}), ("get_many", (["a", "c"],), {})],
        # keys with control characters other than white space and NUL are ordinary keys for every stack
        [("set", (b"row\x01id", b"v"), {"noreply": False}), ("get", (b"row\x01id",), {}), ("set", ("tab\x1bsep", b"w"), {"noreply": False}), ("get_many", ([b"del\x7fkey", "tab\x1bsep"],), {}),
         ("incr", (b"n\x02", 1), {}), ("delete", (b"row\x01id",), {"noreply": False}), ("gets", ("tab\x1bsep",), {}), ("touch", (b"\x08\x0e\x1f", 5), {"noreply": False})],
        [("set", ("k", b""), {"noreply": False}), ("__getitem__", ("k",), {}), ("__setitem__", ("j", b"0"), {}), ("__getitem__", ("j",), {}), ("__delitem__", ("j",), {}), ("__getitem__", ("j",), {})],
    ]
    # with a serializer a stored value may legitimately be None, 0, '' or an empty container: a hit, not a miss
    HS = [[("set", ("k", val_), {"noreply": False}), ("get", ("k",), {"default": "DEFAULT-MARKER"}), ("get", ("k", "POSITIONAL-DEFAULT"), {}), ("gets", ("k",), {}),
           ("get_many", (["k", "zz"],), {}), ("get", ("zz",), {"default": "DEFAULT-MARKER"})] for val_ in (None, 0, "", [], False, {"a": None})]
    for hi, hist in enumerate(H + HS):
        for cfgi, kw in enumerate(({"default_noreply": False}, {"default_noreply": True, "key_prefix": b"p:"})):
            if hi >= len(H):
                kw = dict(kw, serde=serde.PickleSerde())
            ref = None
            for sname, mk in ST:
                if sname.startswith("HashClient") and any(op.startswith("__") for op, _, _ in hist):
                    continue
                S = Scripted(rng)
                S.begin_call(0, {"chunk": "one"})
                obj = mk(S, kw)
                outs = []
                for (op, args, okw) in hist:
                    try:
                        r = getattr(obj, op)(*args, **okw)
                        outs.append(canon_value(op, r))
                    except Exception as e:
                        outs.append(canon_exc(e))
                addr = ("10.0.0.1", 1) if sname == "HashClient(score 0)" else "/var/run/mc.sock" if "unix:" in sname else ("h", 1)
                srv = S.server_for(type("C", (), {"addr": addr, "id": 999})())
                lines_seen = [c for c in srv.cmds]
                outcome = (outs, [repr(c)[:60] for c in lines_seen])
                case = {"stack": sname, "history": [(op, repr(a)[:40]) for op, a, _ in hist], "config": repr(kw)}
                if sname == "Client":
                    ref = outcome
                    continue
                ctx.case(("hist", sname, hi, cfgi))
                ctx.count("one-object-histories")
                same = outcome == ref
                if not same and sname.startswith("RetryingClient") and outcome[0] == ref[0]:
                    same = True      # retried attempts repeat commands (C17's subject); results are what is compared
                if not same:
                    k = next((i for i, (a, b) in enumerate(zip(outcome[0], ref[0])) if a != b), None)
                    ctx.violation(f"{sname} behaves differently from a plain Client in a sequence of calls on one object",
                                  dict(case, first_difference_at=k, client=ref[0], stack=outcome[0], client_commands=len(ref[1]), stack_commands=len(outcome[1])),
                                  tags=["stack:" + sname, "history"] + (["delete_many-illegal-later-key"] if sname.startswith("HashClient") and any(
                                      op_ == "delete_many" and "no t" in a_[0] for op_, a_, _ in hist) else []))
    ctx.assumptions = ["RetryingClient: 'same commands' = every attempt's bytes equal the plain client's (the number of attempts is C17's subject)",
                       "single-server HashClient (multi-server routing is C12)"]
    ctx.finish()
