"""Differential check of the broadcast operations of `HashClient` — `flush_all`, `quit`, `close` / `disconnect_all` — in the
composed Lean model `HashClient ∘ Client` (model `lean/Pymc/Model/HashBroadcast.lean`, driver command `hashcall` with the
tokens `op=hflush_all` / `op=hquit` / `op=hclose`) against the real `pymemcache.client.hash.HashClient`
(use_pooling=False) over the scripted socket module of `hashcall_diff.py`.

Standalone (not part of `./check`):   python harness/hashbroadcast_diff.py [n_histories] [seed]
Environment: VERIF_REPO (default /repo) = the tree whose pymemcache is imported.

A history mixes key-addressed calls (single-key, `get_many` / `gets_many`, `set_many`, `delete_many`: as in
`hashcall_diff.py`), clock advances (every call carries its time), servers going down and coming back (a server that is
down refuses connections and fails `sendall` on an old socket with an `OSError` — persistently, until it comes back; a
server that is up behaves as its script says, which may still contain any single fault), and broadcasts.  A broadcast
walks over every client object registered in `self.clients`, including those of servers that are out of rotation; the
scripts are per server.  For a single-key call the script is chosen per server too (the server's state decides), and the
model is given the script of the server the real hasher routed the key to.

Per call the two sides are compared on: result token (`None` for a broadcast that ran to its end; the class of the
exception that escaped — the `ValueError` of `hasher.remove_node` is its own class, `exc:BookkeepingValueError`), the servers
handed to `_safely_run_func` in order, per such server the client object the function was called on (or `-`), the
bookkeeping state (`hasher.nodes`, `_failed_clients`, `_dead_clients`, `_last_dead_check_time`) and, for every client
object registered in `self.clients`, its identity, whether it has a socket and how many bytes are left unread on it.
"""
import os
import random
import subprocess
import sys

HERE = os.path.dirname(os.path.abspath(__file__))
sys.dont_write_bytecode = True
sys.path.insert(0, HERE)

import hashcall_diff as HD  # noqa: E402
import pooledcall_diff as P  # noqa: E402

DRIVER = HD.DRIVER

# what the differential of the last `differential()` call covered (for the evidence file)
STATS = {}

OSERR_CF = [61, 61, 13]
OSERR_SF = [32, 32, 54]


def down_script(rng, reply=b""):
    """the server is down: connecting is refused, sending on a socket opened earlier fails"""
    evs = [("d", reply)] if reply and rng.random() < 0.3 else []
    return {"cf": rng.choice(OSERR_CF), "sf": rng.choice(OSERR_SF), "evs": evs}


def gen_broadcast(rng, n, down, t, siege=False):
    kind = rng.choice(["flush_all", "flush_all", "flush_all", "quit", "close", "disconnect_all"])
    if siege and rng.random() < 0.85:
        kind = rng.choice(["flush_all", "flush_all", "quit"])
    scripts, args = {}, ()
    if kind == "flush_all":
        delay = rng.choice([0, 0, 0, 5, "soon"])
        noreply = rng.choice([None, None, False, True])
        if siege and rng.random() < 0.8:
            delay = 0
        if delay == 0 and noreply is None and rng.random() < 0.5:
            args = ()
        elif noreply is None and rng.random() < 0.5:
            args = (delay,)
        else:
            args = (delay, noreply)
        for sv in range(n):
            reply = rng.choice([b"OK\r\n", b"OK\r\n", b"OK\r\n", b"ERROR\r\n", b"SERVER_ERROR x\r\n", b"garbage\r\n", b"OK\r\nEXTRA\r\n"])
            if noreply is True and rng.random() < 0.8:
                reply = b""
            scripts[sv] = down_script(rng, reply) if down[sv] else P.gen_script(rng, reply)
    elif kind == "quit":
        for sv in range(n):
            reply = b"" if rng.random() < 0.8 else b"JUNK\r\n"
            scripts[sv] = down_script(rng) if down[sv] else P.gen_script(rng, reply)
    return ("bcast", kind, args, scripts, t)


def gen_history(rng):
    n = rng.choice([1, 2, 2, 3, 3])
    ra = rng.choice([0, 0, 1, 2])
    rt = rng.choice([0, 1, 3])
    dt = rt + rng.choice([1, 2, 6])
    ign = rng.random() < 0.5
    t0 = rng.choice([0, 0, 3])
    t = t0
    down = [rng.random() < 0.3 for _ in range(n)]
    ptoggle = rng.choice([0.1, 0.25, 0.5])
    # "siege": one server stays down for the whole history and the calls — mostly broadcasts — come one retry_timeout apart,
    # so that a server that is already out of rotation collects failure records until its retries are used up
    siege = rng.random() < 0.3
    if siege:
        down = [False] * n
        down[rng.randrange(n)] = True
        ptoggle = 0.0
    history = []
    for _j in range(rng.randint(2, 14)):
        t += rng.choice([rt + 1, rt + 1, rt + 1, rt + 1, rt, 0, 1, dt + 1] if siege else [0, 0, 1, 1, rt, rt + 1, rt + 1, dt, dt + 1, 2 * dt + 1])
        if rng.random() < ptoggle:
            sv = rng.randrange(n)
            down[sv] = not down[sv]
        r = rng.random()
        if r < (0.85 if siege else 0.4):
            history.append(gen_broadcast(rng, n, down, t, siege))
        elif r < 0.5:
            gets, keys, scripts = HD.gen_many(rng, n)
            for sv in scripts:
                if down[sv]:
                    scripts[sv] = down_script(rng)
            history.append(("many", gets, keys, scripts, t))
        elif r < 0.57:
            values, expire, noreply, flags, scripts = HD.gen_set_many(rng, n)
            for sv in scripts:
                if down[sv]:
                    scripts[sv] = down_script(rng)
            history.append(("setmany", values, expire, noreply, flags, scripts, t))
        elif r < 0.62:
            keys, noreply, scripts = HD.gen_delete_many(rng, n)
            for k, sc in zip(keys, scripts):
                # which server a key of the loop reaches is decided at run time; approximated by its first preference
                if k.prefs and down[k.prefs[0]]:
                    sc["cf"], sc["sf"] = rng.choice(OSERR_CF), rng.choice(OSERR_SF)
            history.append(("delmany", keys, noreply, scripts, t))
        else:
            thunk, tok, reply = HD.gen_call(rng)
            scripts = {sv: (down_script(rng, reply) if down[sv] else P.gen_script(rng, reply)) for sv in range(n)}
            prefs = rng.sample(range(n), rng.randint(0, n))
            history.append((thunk, tok, scripts, t, prefs))
    return (n, ra, rt, dt, ign, t0), history


def corpus():
    """directed histories, always run first: the witnesses of `C13_hash_broadcast_bookkeeping_error_witness` and
    `C13_hash_broadcast_bookkeeping_error_in_try_witness` (`lean/Pymc/Proofs/HashBroadcastExamples.lean`: `bkCalls`,
    `siegeCalls`), replayed on the real HashClient and compared with the model like every other history"""
    ok = {"cf": None, "sf": None, "evs": [("d", b"OK\r\n")]}
    down = {"cf": 61, "sf": 32, "evs": [("d", b"OK\r\n")]}
    get_down = {0: {"cf": 61, "sf": None, "evs": [("d", b"END\r\n")]}, 1: {"cf": None, "sf": None, "evs": [("d", b"END\r\n")]}}
    flush = lambda t: ("bcast", "flush_all", (0, False), {0: dict(down), 1: dict(ok)}, t)  # noqa: E731
    out = []
    for ign in (True, False):
        out.append(((2, 0, 1, 5, ign, 0), [((lambda c: c.get(b"k", "DEFAULT")), "op=get k=b:6b", get_down, 0, [0, 1]), flush(1)]))
        out.append(((2, 1, 1, 5, ign, 0), [flush(0), flush(2), flush(4), flush(6), flush(8)]))
    return out


def resolve(history, routed):
    """the history as the model sees it: a single-key call carries the script of the server the key was routed to"""
    out = []
    for item, r in zip(history, routed):
        if not isinstance(item[0], str):
            (thunk, tok, scripts, t, prefs) = item
            sc = scripts[r] if isinstance(r, int) else HD.EMPTY
            item = (thunk, tok, sc, t, prefs)
        out.append(item)
    return out


def differential(n, rng, batch):
    """n random histories on the real HashClient vs the composed Lean model; `batch` = driver batch function.
    Returns (number of calls compared, list of mismatch dicts)."""
    HD._bind()
    lines, expect = [], []
    stats = {"histories": n + len(corpus()), "calls": 0, "broadcasts": 0, "broadcast-flush_all": 0, "broadcast-quit": 0, "broadcast-close": 0,
             "broadcast-escaped-inner-exception": 0, "broadcast-escaped-bookkeeping-ValueError": 0,
             "broadcast-escaped-bookkeeping-ValueError-before-func": 0, "broadcast-swallowed-bookkeeping-ValueError": 0,
             "broadcast-visited-out-of-rotation-server": 0, "broadcast-skipped-client-in-retry-window": 0,
             "broadcast-stopped-before-last-client": 0}
    for params, history in corpus() + [gen_history(rng) for _ in range(n)]:
        routed = []
        py = HD.run_python(params, history, routed_out=routed)
        expect.append(py)
        lines.append(HD.driver_line(params, resolve(history, routed)))
        for item, o in zip(history, py):
            stats["calls"] += 1
            if item[0] != "bcast":
                continue
            stats["broadcasts"] += 1
            stats["broadcast-" + ("close" if item[1] == "disconnect_all" else item[1])] += 1
            f = dict(kv.split("=", 1) for kv in o.split(" ") if "=" in kv)
            if f["res"] == "exc:BookkeepingValueError":
                stats["broadcast-escaped-bookkeeping-ValueError"] += 1
            elif f["res"].startswith("exc:"):
                stats["broadcast-escaped-inner-exception"] += 1
            srv = [] if f["srv"] == "-" else f["srv"].split("+")
            nodes = [x for x in f["nodes"].strip("[]").split(",") if x]
            if any(s not in nodes for s in srv):
                stats["broadcast-visited-out-of-rotation-server"] += 1
            cl = f["client"].split("+") if f["client"] != "-" else []
            # `func` not called on a server whose dead time is that of this call: the `remove_server` inside the `try` raised
            # (ignore_exc swallows it and the loop goes on; otherwise it is the exception that escaped)
            if f["res"] != "exc:BookkeepingValueError" and any(c == "-" and "%s@%d" % (s, item[4]) in f["dead"] for s, c in zip(srv, cl)):
                stats["broadcast-swallowed-bookkeeping-ValueError"] += 1
            if f["res"] == "exc:BookkeepingValueError" and cl and cl[-1] == "-":
                stats["broadcast-escaped-bookkeeping-ValueError-before-func"] += 1
            if "-" in cl:
                stats["broadcast-skipped-client-in-retry-window"] += 1
            if len(srv) < params[0]:
                stats["broadcast-stopped-before-last-client"] += 1
    STATS.clear()
    STATS.update(stats)
    outs = batch(lines)
    return HD.compare(lines, outs, expect)


def main():
    n = int(sys.argv[1]) if len(sys.argv) > 1 else 300
    seed = int(sys.argv[2]) if len(sys.argv) > 2 else 1
    rng = random.Random(seed)

    def batch(lines):
        p = subprocess.run([DRIVER], input="\n".join(lines) + "\n", stdout=subprocess.PIPE, text=True, timeout=1200)
        outs = p.stdout.strip("\n").split("\n")
        assert len(outs) == len(lines), (len(outs), len(lines))
        return outs
    ncalls, bad = differential(n, rng, batch)
    for b in bad[:10]:
        print("MISMATCH")
        for k, v in b.items():
            print("   ", k, ":", v)
    print(f"hashbroadcast_diff: histories={n} calls={ncalls} mismatches={len(bad)}")
    print("   ", STATS)
    sys.exit(1 if bad else 0)


if __name__ == "__main__":
    main()
