"""The type conversion of `Client.stats` (base.py:60-99, 952-960) against the Lean model `Stats.convert` / `Stats.statsConvert`.

Two layers.  (1) converter level: the real `Client.stats()` loop run over a dict handed to it in place of `_fetch_cmd`'s result —
every key of `STAT_TYPES`, unknown `bytes` keys and `str` keys x a value corpus (exhaustive short strings over an alphabet of the
bytes that matter to `int`, `int(…, 8)`, `float` and `== b"yes"`; decimal boundaries; the interpreter's digit limit at 0 / 640 / 4300).
(2) wire level: the real `Client.stats()` behind the fake socket on `STAT` / `ITEM` / `VALUE` replies (done by the callers through
`run_call`; the driver prints the model's converted dict).

A *monitor* judges the implementation alone on what the docstring promises ("a best effort is made to convert values to appropriate
Python types, defaulting to [the raw value] when a conversion cannot be made"): canonical decimals become that `int`, `0`/`1` of the
boolean settings become `False`/`True`, `version` stays `bytes`, `umask` is read as octal, an unconvertible value is returned as it
was, no value makes `stats()` raise and no key appears or disappears."""
import itertools
import sys

from clientlib import key_tok, model_sval_tok, stat_val_tok
from common import hx

ALPHABET = [b" ", b"+", b"-", b"_", b"0", b"1", b"7", b"8", b"o", b"O", b"\n", b"a", b"\x00", b".", b":", b"y", b"e", b"s"]


def structured_values():
    V = [b"", b"0", b"1", b"2", b"-1", b"+1", b"10", b"007", b"1_000", b"1__0", b"_1", b"1_", b" 12", b"12 ", b"\t12\r", b"\x0b12\x0c", b"1 2", b"+ 1", b"- 1", b"--1", b"+-1",
         b"yes", b"no", b"Yes", b"yes ", b"YES", b"y", b"1.5", b"1:5", b"1:5:6", b"0:000001", b"nan", b"inf", b"-inf", b"1e5", b"1_0.5", b".5", b"5.", b":", b".", b"0x1f", b"0b1", b"0o17", b"0O17",
         b"0o_17", b"0o__17", b"0o", b"0o8", b"-0o7", b"+0O7", b" 0o7 ", b"017", b"08", b"09", b"0_7", b"7_", b"0o7_", b"o7", b"0 o7", b"022", b"0022", b"777", b"778",
         "١٢".encode(), b"\xff", b"1\xff", b"1\x00", b"\x001", b"1.6.21", b"127.0.0.1", b"a:b", b"true", b"false", b"None", b"1L", b"0" * 30, b"-0", b"+0", b"00", b"0_0",
         b"\x1c1", b"\x851", b"\xa01", b"1\x1f"]
    for n in (2 ** 31 - 1, 2 ** 31, 2 ** 32, 2 ** 63 - 1, 2 ** 63, 2 ** 64 - 1, 2 ** 64, 10 ** 20, 10 ** 100):
        d = str(n).encode()
        V += [d, b"-" + d, b"+" + d, b" " + d + b"\n", oct(n)[2:].encode(), oct(n).encode()]
    return V


def digit_limit_values():
    """around the interpreter's limit on decimal digits (applies to `int(value)`, not to `int(value, 8)`)"""
    V = []
    for nd in (639, 640, 641, 4299, 4300, 4301, 5000):
        V += [b"1" * nd, b"-" + b"1" * nd, b"0" * (nd - 1) + b"1", b" " + b"9" * nd + b" ", b"1_" * (nd - 1) + b"1", b"7" * nd]
    return V


def real_convert(client, items):
    """the real `Client.stats()` with `_fetch_cmd`'s result given: returns the converted dict or the exception"""
    client._fetch_cmd = lambda name, args, expect_cas, _d=items: dict(_d)
    try:
        return client.stats()
    except Exception as e:           # the loop promises there is none
        return e


def run(ctx, Client):
    import pymemcache.client.base as base
    # the fifteen names of the documented table are part of the corpus whatever the implementation's table holds now
    table_keys = sorted((set(base.STAT_TYPES) | set(DOCUMENTED)), key=repr)
    other_keys = [b"pid", b"curr_items", b"versio", b"version2", b"Version", b"", "version", "umask", "pid", b"umask ", b"evictions"]
    keys = table_keys + other_keys
    client = Client(("h", 1))
    old_lim = sys.get_int_max_str_digits()
    maxlen = 4 if ctx.thorough else 3
    short = [b"".join(t) for n in range(0, maxlen + 1) for t in itertools.product(ALPHABET, repeat=n)]
    rnd = []
    for _ in range(20000 if ctx.thorough else 3000):
        rnd.append(b"".join(ctx.rng.choice(ALPHABET) for _ in range(ctx.rng.randint(5, 9))))
    plans = [(4300, short + structured_values() + rnd + digit_limit_values()), (0, digit_limit_values() + structured_values()), (640, digit_limit_values())]
    lines, reals = [], []
    try:
        for lim, values in plans:
            sys.set_int_max_str_digits(lim)
            for v in values:
                got = real_convert(client, [(k, v) for k in keys])
                ctx.count(f"stats-conversion values (digit limit {lim})")
                if isinstance(got, Exception) or list(got) != keys:
                    ctx.violation("stats() raised, or the converted dict does not have the keys of the reply", {"value": repr(v)[:80], "digit_limit": lim, "got": repr(got)[:160]}, tags=["stats-conv"])
                    continue
                for k in keys:
                    lines.append(f"statconv {lim} {key_tok(k)} {hx(v)}")
                    reals.append((lim, k, v, got[k]))
                monitor(ctx, lim, v, got)
    finally:
        sys.set_int_max_str_digits(old_lim)
    outs = ctx.driver.batch(lines) if ctx.driver.available and ctx.lean.build_ok else []
    sys.set_int_max_str_digits(0)          # the comparison renders integers of any size in decimal
    try:
        _compare(ctx, base, reals, outs)
    finally:
        sys.set_int_max_str_digits(old_lim)
    ctx.case(("stats-conv", len(lines)))
    return len(lines)


def _compare(ctx, base, reals, outs):
    kinds = {}
    nbad = 0
    for (lim, k, v, r), o in zip(reals, outs):
        toks = o.split(" ")
        want = model_sval_tok(toks[2]) if len(toks) == 3 and toks[0] == "ok" else o
        have = stat_val_tok(r)
        kinds[(toks[1] if len(toks) > 1 else "?") + "->" + have.split(":")[0]] = kinds.get((toks[1] if len(toks) > 1 else "?") + "->" + have.split(":")[0], 0) + 1
        # the converter the implementation has for this key, by name (the table itself is tied by the translator + `decide`)
        conv = base.STAT_TYPES.get(k, int)
        cname = getattr(conv, "__name__", repr(conv))
        if want != have or (len(toks) > 1 and toks[1] != cname):
            nbad += 1
            if nbad <= 5:
                ctx.disagreement("Lean model of the stats type conversion differs from the implementation",
                                 {"key": repr(k), "value": repr(v)[:80], "digit_limit": lim, "implementation": have[:120], "converter": cname, "model": o[:160]}, theorem="C05_stats_counter_roundtrip")
    for kk, n in sorted(kinds.items()):
        ctx.count("stats-conv " + kk, n)


DOCUMENTED = [b"version", b"rusage_user", b"rusage_system", b"hash_is_expanding", b"slab_reassign_running", b"inter", b"growth_factor", b"stat_key_prefix", b"umask",
              b"detail_enabled", b"cas_enabled", b"auth_enabled_sasl", b"maxconns_fast", b"slab_reassign", b"slab_automove"]
BOOL_KEYS = [b"hash_is_expanding", b"slab_reassign_running", b"detail_enabled", b"cas_enabled", b"maxconns_fast", b"slab_reassign", b"slab_automove"]


def monitor(ctx, lim, v, got):
    """what the docstring promises, judged on the implementation's own result"""
    def bad(what, k):
        ctx.violation(what, {"key": repr(k), "value": repr(v)[:80], "digit_limit": lim, "got": repr(got.get(k))[:100]}, tags=["stats-conv", "key:" + repr(k)])
    canonical = v.isdigit() and v.isascii() and (v == b"0" or not v.startswith(b"0")) and (lim == 0 or len(v) <= lim)
    if canonical:
        n = int(v.decode())
        for k in (b"pid", b"curr_items", b"evictions", "pid"):
            if got.get(k) != n or type(got.get(k)) is not int:
                bad("a counter the server reports in decimal is not returned as that integer", k)
        for k in BOOL_KEYS:
            if got.get(k) is not (n != 0):
                bad("a boolean setting reported as a number is not returned as `number != 0`", k)
    if v and all(48 <= c <= 55 for c in v):
        if got.get(b"umask") != int(v.decode(), 8) or type(got.get(b"umask")) is not int:
            bad("umask is not read as an octal number", b"umask")
    for k in (b"version", b"inter", b"stat_key_prefix"):
        if got.get(k) != v or type(got.get(k)) is not bytes:
            bad("a textual statistic is not returned as the bytes the server sent", k)
    if got.get(b"auth_enabled_sasl") is not (v == b"yes"):
        bad("auth_enabled_sasl is not `value == b'yes'`", b"auth_enabled_sasl")
    # a value no integer syntax covers is returned as it was
    if v and not any(48 <= c <= 57 for c in v):
        for k in (b"pid", "pid", b"cas_enabled", b"umask"):
            if got.get(k) != v or type(got.get(k)) is not bytes:
                bad("a value without a single digit was converted instead of being returned as it was", k)
    for k in (b"rusage_user", b"rusage_system"):
        try:
            want = float(v.replace(b":", b"."))
        except ValueError:
            want = v
        if repr(got.get(k)) != repr(want):
            bad("rusage is not `seconds:microseconds` read as a float (or the raw value)", k)
