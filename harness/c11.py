"""C11 — key placement is a pure, order-independent, minimally disruptive function.
Real `RendezvousHash` / `HashClient` versus the Lean model `Rendezvous.getNode` (correspondence) and
metamorphic relations + the published lex-max rule evaluated on the real code (monitor)."""
import itertools
import os
import subprocess
import sys

from common import FakeClock, Ctx, REPO, import_repo


def cps(s):
    return ",".join(str(ord(c)) for c in s) or "-"


def lexmax(murmur, nodes, key, seed=0, hf=None):
    """the published rule, stated directly"""
    if not nodes:
        return None
    f = hf or murmur
    return max(nodes, key=lambda n: (f(f"{n}-{key}", seed), n))


class FakeClient:
    """client_class seam: records which server object receives which call"""
    log = []
    down = set()
    unbuildable = set()

    def __init__(self, server, **kw):
        if server in FakeClient.unbuildable:
            raise ConnectionRefusedError(111, "cannot build a client for this server")      # e.g. a client class that connects eagerly
        self.server = server

    def __getattr__(self, name):
        def f(*a, **kw):
            FakeClient.log.append((self.server, name, a))
            if self.server in FakeClient.down and name != "close":
                raise ConnectionRefusedError(111, "refused")
            return None if name != "get_many" else {}
        return f


class FakeTime(FakeClock):
    def __init__(self):
        self.now = 1_000_000.0
        super().__init__(lambda: self.now)


def main(argv):
    ctx = Ctx("C11", argv)
    ctx.prepare_lean()
    import_repo()
    from pymemcache.client.rendezvous import RendezvousHash
    from pymemcache.client.murmur3 import murmur3_32
    import refmurmur
    ref_murmur = refmurmur.of_text          # the published rule is judged with an independent MurmurHash3, not with the code under test
    from pymemcache.client.hash import HashClient
    from pymemcache.client.base import normalize_server_spec
    rng = ctx.rng
    ctx.rule = ("node sets up to 8 nodes x all permutations (<=5 quick, <=6 thorough) x add/remove histories x key corpora x hash functions "
                "{murmur3, constant (forced ties), two-valued}; HashClient through the client_class seam with equivalent server spellings; "
                "fresh interpreters with different PYTHONHASHSEED; non-trivial = distinct (hash, node list, key) with >= 2 nodes")
    names = ["127.0.0.1:11211", "127.0.0.1:11212", "10.0.0.3:11211", "cache-a:11211", "cache-b:11211", "/var/run/mc.sock",
             "né:1", "z", "a", "ab", "b:1"]
    hfs = {"murmur": None, "const": (lambda x, s: 7), "two": (lambda x, s: murmur3_32(x, s) % 2)}
    keys = [str(i) for i in range(60)] + ["k%d" % i for i in range(20)] + ["", "-", "a-b", "é", "b'k'"] + ["ключ:%04d" % i for i in range(12)] + ["鍵%d" % i for i in range(6)] + ["naïve-%d" % i for i in range(4)]
    lines, metas = [], []

    def get(nodes, key, mode, seed=0):
        hf = hfs[mode]
        rh = RendezvousHash(nodes=list(nodes), seed=seed, hash_function=hf) if hf else RendezvousHash(nodes=list(nodes), seed=seed)
        return rh.get_node(key)

    # 1. correspondence + lex-max rule + permutation independence
    maxperm = 6 if ctx.thorough else 5
    for mode in hfs:
        for n in range(0, 9):
            for rep in range(3 if n > 1 else 1):
                nodes = rng.sample(names, n)
                seed = rng.choice([0, 0, 1, 2 ** 32 - 1])
                for key in rng.sample(keys, 25 if ctx.thorough else 8):
                    w = get(nodes, key, mode, seed)
                    case = {"hash": mode, "seed": seed, "nodes": nodes, "key": key, "winner": w}
                    ctx.case((mode, seed, tuple(nodes), key), nontrivial=n >= 2, sample=case if (n == 4 and mode == "const" and rep == 0 and len(ctx.samples) < 3) else None)
                    ctx.count(f"hash={mode}")
                    want = lexmax(ref_murmur, nodes, key, seed, hfs[mode])
                    if w != want:
                        ctx.violation("winner is not the (score, name) lexicographic maximum", dict(case, want=want))
                    if n <= maxperm:
                        for perm in itertools.permutations(nodes):
                            ctx.count("permutations")
                            if get(perm, key, mode, seed) != w:
                                ctx.violation("placement depends on node order", dict(case, order=list(perm)))
                                break
                    lines.append(f"getnode seed={seed} hash={mode} key={cps(key)} nodes={';'.join(cps(x) for x in nodes) or '-'}")
                    metas.append((case, "ok " + (cps(w) if w is not None else "NONE")))
    # 1b. ties between nodes one of whose names is a prefix of the other (cache / cache-2, a socket path and its sibling, an address and its
    #     scoped form): the greatest NAME wins, whatever follows the shared prefix and whatever the key is
    families = [["cache", "cache-2", "cache-10"], ["/var/run/mc", "/var/run/mc-2", "/var/run/mc.sock"], ["db", "db+1", "db,2", "db-", "db.3"],
                ["fe80::1", "fe80::1%eth0", "fe80::1:11211"], ["h", "h-", "h--", "h-k"], ["n", "n ", "n!", "n-1", "n0"]]
    tie_keys = ["", "-", "0", "1", "2", "3", "7", "9", "k", "z", "!", " ", "-k", "~", "cache", "2-2"]
    for mode in ("const", "two", "murmur"):
        for fam in families:
            for r in range(2, len(fam) + 1):
                for nodes in itertools.combinations(fam, r):
                    for key in tie_keys if mode != "murmur" else tie_keys[:4]:
                        for order in (list(nodes), list(reversed(nodes))):
                            w = get(order, key, mode, 0)
                            case = {"hash": mode, "seed": 0, "nodes": order, "key": key, "winner": w}
                            ctx.case((mode, 0, tuple(order), key))
                            ctx.count("prefix-related node names")
                            want = lexmax(ref_murmur, order, key, 0, hfs[mode])
                            if w != want:
                                ctx.violation("winner is not the (score, name) lexicographic maximum", dict(case, want=want), tags=["prefix-names"])
                        lines.append(f"getnode seed=0 hash={mode} key={cps(key)} nodes={';'.join(cps(x) for x in nodes)}")
                        metas.append((case, "ok " + cps(w)))
    # 1c. the rule is "highest score", for whatever hash function the ring was given (the constructor takes any `hash_function(key, seed)`): scores wider
    #     than 32 bits (a 64-bit hash, scores that differ only in their upper half), and rings used directly with node identifiers that are not
    #     non-empty strings (shards numbered from 0, the empty name).  No forced ties here: distinct scores, the highest wins.
    wide = {"wide64": lambda x, s_: (ref_murmur(x, s_) << 32) | ref_murmur(x[::-1], s_ ^ 1), "upper-half-only": lambda x, s_: ref_murmur(x, s_) << 32,
            "wide-small-low": lambda x, s_: (ref_murmur(x, s_) << 40) + 7}
    ident_sets = [list(range(n_)) for n_ in (2, 3, 4, 5)] + [["", "a", "b"], ["b", "", "a"], [0, "a", ""], ["x", 0, 1]]
    for hname, hf_ in list(wide.items()) + [("murmur", None)]:
        for nodes in ([names[:k_] for k_ in (2, 3, 5)] if hf_ else []) + ident_sets:
            for order in (list(nodes), list(reversed(nodes)), nodes[1:] + nodes[:1]):
                for key in keys[:40:3] + ["", "0"]:
                    rh = RendezvousHash(nodes=list(order), hash_function=hf_) if hf_ else RendezvousHash(nodes=list(order))
                    w = rh.get_node(key)
                    f_ = hf_ or ref_murmur
                    scores = {repr(n_): f_(f"{n_}-{key}", 0) for n_ in order}
                    if len(set(scores.values())) != len(scores):
                        continue                          # a tie: the name rule of sections 1 / 1b applies, not this one
                    want = max(order, key=lambda n_: f_(f"{n_}-{key}", 0))
                    ctx.case(("rule-any-score", hname, repr(order), key))
                    ctx.count("wide scores / unusual node identifiers")
                    if w != want or type(w) is not type(want):
                        ctx.violation("winner is not the node with the highest score", {"hash": hname, "nodes": repr(order), "key": key, "winner": repr(w), "want": repr(want),
                                                                                         "scores": {k_: v_ for k_, v_ in list(scores.items())[:5]}}, tags=["any-score"])
    # 2. histories: same resulting set => same placement; remove/add disruption
    for mode in hfs:
        for _ in range(400 if ctx.thorough else 80):
            hf = hfs[mode]
            live = rng.sample(names, rng.choice([0, 0, 1, 2, 3]))      # nodes given to the constructor
            rh = RendezvousHash(nodes=list(live), hash_function=hf) if hf else RendezvousHash(nodes=list(live))
            hist = [("ctor", x) for x in live]
            for _ in range(rng.randrange(1, 9)):
                if live and rng.random() < .4:
                    x = rng.choice(live)
                    rh.remove_node(x)
                    live.remove(x)
                    hist.append(("remove", x))
                else:
                    x = rng.choice(names)
                    rh.add_node(x)
                    if x not in live:
                        live.append(x)
                    hist.append(("add", x))
                if rng.random() < .5:
                    # a lookup in the middle of the history (sometimes after one step, sometimes after several): it must not influence later ones
                    kq = rng.choice(keys)
                    got_mid = rh.get_node(kq)
                    hist.append(("lookup", kq))
                    if got_mid != get(sorted(live), kq, mode):
                        ctx.violation("placement depends on add/remove history", {"hash": mode, "history": hist, "key": kq, "got": got_mid, "fresh": get(sorted(live), kq, mode)})
                        break
            if sorted(rh.nodes) != sorted(live) or len(set(rh.nodes)) != len(rh.nodes):
                ctx.violation("node list is not the set produced by the history", {"history": hist, "nodes": rh.nodes})
            fresh = sorted(live)
            for key in rng.sample(keys, 10):
                ctx.case(("hist", mode, tuple(hist), key), nontrivial=len(live) >= 2)
                ctx.count("histories")
                a = rh.get_node(key)
                b = get(fresh, key, mode)
                if a != b:
                    ctx.violation("placement depends on add/remove history", {"hash": mode, "history": hist, "key": key, "got": a, "fresh": b})
                if live:
                    gone = rng.choice(live)
                    rest = [x for x in live if x != gone]
                    c = get(rest, key, mode)
                    if a != gone and c != a:
                        ctx.violation("removing a server moved a key that did not live on it", {"hash": mode, "nodes": live, "removed": gone, "key": key, "before": a, "after": c})
                    if a == gone and c == gone:
                        ctx.violation("key still placed on a removed server", {"nodes": live, "removed": gone, "key": key})
                new = rng.choice([x for x in names if x not in live] or ["extra"])
                d = get(live + [new], key, mode)
                if d != a and d != new:
                    ctx.violation("adding a server moved a key onto an old server", {"hash": mode, "nodes": live, "added": new, "key": key, "before": a, "after": d})
    # 3. HashClient: contacted server, equivalent spellings, spread
    spellings = [
        [("127.0.0.1", 11211), ("127.0.0.1", 11212), ("cache-a", 11211)],
        ["127.0.0.1:11211", "127.0.0.1:11212", "cache-a:11211"],
        ["127.0.0.1", "127.0.0.1:11212", "cache-a"],
        [("cache-a", 11211), "127.0.0.1:11212", "127.0.0.1"],
    ]
    mixed_case = [[("Cache-A.Internal", 11211), ("CACHE-B", 11212), ("node3.example", 11211)], ["Cache-A.Internal:11211", "CACHE-B:11212", "node3.example"],
                  ["Cache-A.Internal", ("CACHE-B", 11212), "node3.example:11211"]]
    unix = [["unix:/tmp/a.sock", ("h", 1)], ["/tmp/a.sock", "h:1"]]
    v6 = [["[::1]:11211", "[fe80::1]"], [("::1", 11211), ("fe80::1", 11211)]]
    corpus = ["key%d" % i for i in range(3000 if ctx.thorough else 600)]
    for group in (spellings, mixed_case, unix, v6):
        placements = []
        for servers in group:
            FakeClient.log = []
            hc = type('HC', (HashClient,), {'client_class': FakeClient})(servers)
            for k in corpus:
                hc.get(k)
            pl = [normalize_server_spec(s) if not isinstance(s, tuple) else s for s, _, _ in FakeClient.log]
            placements.append(pl)
            ctx.case(("hashclient", repr(servers)), nontrivial=True)
            ctx.count("hashclient-corpora")
            # the contacted server is the lex-max over the node names
            nodes = [("%s:%s" % ns) if isinstance(ns, tuple) else ns for ns in map(normalize_server_spec, servers)]
            for k, (srv, name, a) in zip(corpus[:200], FakeClient.log):
                want = lexmax(ref_murmur, nodes, k)
                got = ("%s:%s" % srv) if isinstance(srv, tuple) else srv
                if got != want or a[0] != k:
                    ctx.violation("HashClient contacted a server other than the rendezvous winner", {"servers": servers, "key": k, "got": got, "want": want})
                    break
            shares = {n: 0 for n in nodes}
            for srv, _, _ in FakeClient.log:
                name_ = ("%s:%s" % srv) if isinstance(srv, tuple) else srv
                if name_ not in shares:
                    ctx.violation("HashClient built a client for a server that is not one of the configured ones (in their canonical spelling)",
                                  {"servers": servers, "client_built_for": repr(srv), "configured": nodes})
                    shares = None
                    break
                shares[name_] += 1
            if shares is None:
                continue
            ctx.extra.setdefault("spread_min_share", []).append(round(min(shares.values()) / len(corpus), 3))
            if min(shares.values()) == 0:
                ctx.violation("a server received no key of a large corpus (no spread)", {"servers": servers, "shares": shares})
        for pl in placements[1:]:
            if pl != placements[0]:
                ctx.violation("equivalent spellings of the server addresses give different placement", {"group": group})
    # 3b. HashClient rotation histories: servers added, failing (removed from rotation) and recovering (re-added); after every event the
    #     contacted server is the rendezvous winner over the servers currently in rotation - nothing of the earlier rotation lingers
    import pymemcache.client.hash as hash_mod
    real_time = hash_mod.time
    pool_servers = [("10.0.0.%d" % i, 11211) for i in range(1, 7)]
    small = ["key%d" % i for i in range(120 if ctx.thorough else 60)]
    try:
        scripted = [(1, ["fail", "recover", "add", "fail"], True), (1, ["fail", "add", "recover"], False), (2, ["fail", "fail", "recover", "recover"], True),
                    (1, ["add-fails", "fail", "add-fails", "recover"], False), (2, ["add-fails", "add", "fail"], True), (3, ["fail", "add-fails", "recover", "fail", "fail"], False)]
        for rep in range((40 if ctx.thorough else 12) + len(scripted)):
            ft = FakeTime()
            hash_mod.time = ft
            FakeClient.down = set()
            plan = scripted[rep] if rep < len(scripted) else None
            start = rng.sample(pool_servers, plan[0] if plan else rng.randrange(1, 4))
            hc = type('HC', (HashClient,), {'client_class': FakeClient})(list(start), retry_attempts=0, dead_timeout=60, ignore_exc=(plan[2] if plan else True))
            rotation = list(start)
            hist = [("ctor", start)]

            def probe(what):
                FakeClient.log = []
                for k in small:
                    try:
                        hc.get(k)
                    except Exception as e:
                        if rotation or type(e).__name__ != "MemcacheError":
                            ctx.violation("a lookup raised an unexpected error", {"history": [list(map(str, h)) for h in hist], "after": what, "rotation": ["%s:%s" % s_ for s_ in rotation],
                                                                                  "key": k, "error": repr(e)[:100]}, tags=["hashclient-rotation"])
                            return False
                if not rotation:
                    if FakeClient.log:
                        ctx.violation("no server is in rotation, yet a server was contacted",
                                      {"history": [list(map(str, h)) for h in hist], "after": what, "contacted": sorted({"%s:%s" % e_[0] for e_ in FakeClient.log})}, tags=["hashclient-rotation"])
                        return False
                    return True
                nodes = ["%s:%s" % s_ for s_ in rotation]
                for k, (srv, _, a) in zip(small, FakeClient.log):
                    ctx.count("hashclient-rotation-probes")
                    want = lexmax(ref_murmur, nodes, k)
                    got = "%s:%s" % srv
                    if got != want:
                        ctx.violation("HashClient contacted a server other than the rendezvous winner over the servers now in rotation",
                                      {"history": [list(map(str, h)) for h in hist], "after": what, "rotation": nodes, "key": k, "got": got, "want": want}, tags=["hashclient-rotation"])
                        return False
                return True
            ok = probe("construction")
            for step in range(len(plan[1]) if plan else rng.randrange(2, 7)):
                if not ok:
                    break
                ev = plan[1][step] if plan else rng.choice(["add", "fail", "recover", "add-fails", "fail"])
                outside = [s_ for s_ in pool_servers if s_ not in rotation and s_ not in FakeClient.down]
                if ev == "add" and outside:
                    x = rng.choice(outside)
                    hc.add_server(x)
                    rotation.append(x)
                    hist.append(("add_server", x))
                elif ev == "add-fails" and outside:
                    x = rng.choice(outside)
                    FakeClient.unbuildable = {x}
                    try:
                        hc.add_server(x)
                        hist.append(("add_server did not raise although the client could not be built", x))
                    except Exception:
                        hist.append(("add_server failed", x))
                    FakeClient.unbuildable = set()
                elif ev == "fail" and rotation:
                    x = rng.choice(rotation)
                    FakeClient.down.add(x)
                    for k in small:            # the first call that reaches it takes it out of rotation
                        try:
                            hc.get(k)
                        except Exception:
                            pass
                    rotation.remove(x)
                    hist.append(("failed", x))
                elif ev == "recover" and FakeClient.down:
                    x = rng.choice(sorted(FakeClient.down))
                    FakeClient.down.discard(x)
                    ft.now += 61
                    rotation.append(x)
                    for y in list(FakeClient.down):      # the other dead servers are retried too, fail again and leave again
                        pass
                    hist.append(("recovered after dead_timeout", x))
                    if FakeClient.down:
                        for k in small:
                            hc.get(k)
                else:
                    continue
                ctx.case(("rotation", rep, step), nontrivial=len(rotation) >= 2)
                ok = probe(hist[-1][0])
    finally:
        hash_mod.time = real_time
        FakeClient.down = set()
        FakeClient.unbuildable = set()
    # node-name model (normalize_server_spec + _make_client_key) against the real code
    nlines, nwant = [], []
    specs = ["h:12", "h", "localhost:11211", "[::1]:11211", "[::1]", "unix:/a/b", "/a/b", "a.b-c:1", "x:0", "h:0012", ("h", 12), ("h.x", 11211)]
    for sp in specs:
        try:
            ns = normalize_server_spec(sp)
            real = ("%s:%s" % ns) if isinstance(ns, tuple) else ns
            nwant.append("ok " + cps(real))
        except Exception:
            nwant.append("ok NONE")
        nlines.append("nodename spec=" + (f"s:{cps(sp)}" if isinstance(sp, str) else f"t:{cps(sp[0])}:{sp[1]}"))
    if ctx.lean.build_ok:
        for (case, real), m in zip(metas, ctx.driver.batch(lines)):
            if m != real:
                ctx.disagreement("model getNode differs from RendezvousHash.get_node", dict(case, model=m), theorem="C11_getNode_is_lexmax")
        for l, w, m in zip(nlines, nwant, ctx.driver.batch(nlines)):
            ctx.count("nodename")
            if m != w:
                ctx.disagreement("model node name differs from normalize_server_spec/_make_client_key", {"line": l, "impl": w, "model": m}, theorem="C11_spelling_equiv_default_port")
    # 4. process / hash-randomisation independence
    probe_nodes = names[:5]
    probe_keys = keys[:40]
    code = ("import sys; sys.path.insert(0, %r); from pymemcache.client.rendezvous import RendezvousHash as R; "
            "r=R(nodes=%r); print([r.get_node(k) for k in %r])" % (REPO, probe_nodes, probe_keys))
    here = repr([get(probe_nodes, k, "murmur") for k in probe_keys])
    for hs in ("0", "1", "4242"):
        out = subprocess.run([sys.executable, "-c", code], env={"PYTHONHASHSEED": hs, "PATH": "/usr/bin:/bin", "PYTHONDONTWRITEBYTECODE": "1",
                             "PYTHONPYCACHEPREFIX": os.environ.get("PYTHONPYCACHEPREFIX", "/nonexistent-pyc")},
                             capture_output=True, text=True, timeout=60).stdout.strip()
        ctx.count("fresh-interpreter")
        if out != here:
            ctx.violation("placement differs between processes", {"PYTHONHASHSEED": hs, "here": here[:200], "there": out[:200]})
    ctx.assumptions = ["'keys spread over all servers' is statistical: measured (spread_min_share), not proved",
                       "murmur3_32 = MurmurHash3 is C14's subject; here the score function is a parameter of the theorems"]
    ctx.finish()
