"""C09 — a failed pooled connection is discarded and pool capacity is conserved.
Real `PooledClient` over the fault-plan socket and a virtual clock patched into pool.py; after every call the pool
counters and the socket ledger are judged (monitor); which pooled client / which connection served each call, what is
idle at the end and the order in which connections were closed are compared with the Lean model `Pooled.run`."""
import itertools

from clientlib import run_call
from common import FakeClock, Ctx, import_repo
from faultrun import OPS, Scripted

CLOCK = [1000.0]
SCALE = 100         # the model counts time in ticks of 1/SCALE second (fractional pool_idle_timeout values)


FakeTimeMod = FakeClock(lambda: CLOCK[0])


FAULTS = [
    None,
    {"connect_fault": ("connect", "refused")},
    {"send_fault": "pipe"},
    {"recv_fault": (0, "timeout")},
    {"recv_fault": (1, "eof"), "chunk": "bytes"},
    {"mutation": "error-line"},
    {"mutation": "garbage-line"},
    {"recv_fault": (2, "reset"), "chunk": "bytes"},
    # "once each call has returned or raised the number of checked-out connections is back to zero": also when what is raised is not an Exception
    {"recv_fault": (0, "kbd")},
    {"send_fault": "interrupt"},
    # the fault strikes after connect() succeeded, while the I/O timeout is being set: that socket is a connection, and it failed
    {"connect_fault": ("settimeout", "oserror", 1)},
]
ALPHA = [{"op": "set", "k": "a", "v": b"1", "nr": False}, {"op": "get", "k": "a"}, {"op": "get_many", "ks": ["a", "b"]}, {"op": "incr", "k": "a", "d": 1, "nr": False},
         {"op": "delete", "k": "a", "nr": False}, {"op": "quit"}, {"op": "set", "k": " bad key", "v": b"1", "nr": False}, {"op": "decr", "k": "a", "d": 1, "nr": False},
         {"op": "get", "k": "bad key"}]
MORE = [{"op": "touch", "k": "a", "e": 5, "nr": False}, {"op": "gets", "k": "a"}, {"op": "gat", "k": "a", "e": 5}, {"op": "gats", "k": "a", "e": 5}, {"op": "gets_many", "ks": ["a"]},
        {"op": "delete_many", "ks": ["a", "b"], "nr": False}, {"op": "version"}, {"op": "flush_all", "d": 0, "nr": False}, {"op": "cas", "k": "a", "v": b"1", "cas": b"1", "nr": False},
        {"op": "append", "k": "a", "v": b"1", "nr": False}, {"op": "set_many", "items": [("a", b"1"), ("b", b"2")], "nr": False}, {"op": "add", "k": "a", "v": b"1", "nr": False},
        # the mapping protocol: pc[key] of an absent key ends in KeyError - an answer about the key, not a failure of the connection
        {"op": "getitem", "k": "a"}, {"op": "getitem", "k": "absent"}, {"op": "setitem", "k": "a", "v": b"5"}, {"op": "delitem", "k": "a"}, {"op": "delitem", "k": "absent"}]


def run_seq(ctx, PooledClient, seq, cfg, rng):
    """seq: list of (gap, call, fault); cfg: (max_pool_size, idle_timeout, ignore_exc)"""
    mx, idle, ign = cfg
    CLOCK[0] = 1000.0
    S = Scripted(rng)
    S.clock = CLOCK
    pc = PooledClient(("h", 1), socket_module=S.sm, max_pool_size=mx, pool_idle_timeout=idle, ignore_exc=ign, default_noreply=False)
    pool = pc.client_pool
    W = S.world
    clients = {}          # id(obj) -> index
    rec = {"raised": None, "client": None}
    orig_get = pool.get

    def rec_get():
        o = orig_get()
        if id(o) not in clients:
            clients[id(o)] = (len(clients), o)
            # record whether the inner call raised (instance-level wrappers; PooledClient calls client.<method>)
            for name in ("set", "set_many", "get", "gets", "gat", "gats", "get_many", "gets_many", "add", "replace", "append", "prepend", "cas", "delete",
                         "delete_many", "incr", "decr", "touch", "flush_all", "version", "quit", "stats", "raw_command", "shutdown"):
                def mkw(f):
                    def w(*a, **kw):
                        try:
                            r = f(*a, **kw)
                            rec["raised"] = False
                            return r
                        except BaseException as e:
                            rec["raised"] = type(e).__name__
                            raise
                    return w
                setattr(o, name, mkw(getattr(o, name)))
        rec["client"] = clients[id(o)][0]
        return o
    pool.get = rec_get
    connmap = {}          # real conn id -> model connection id (allocated at a successful connect())
    closed_order = []
    model_evs, obs, desc = [], [], []
    closed_conns = set()
    last_ok = None        # (model conn, time) of the last healthy call
    for n, item in enumerate(seq):
        gap, call, fault = item[:3]
        dur = item[3] if len(item) > 3 else 0
        CLOCK[0] += gap
        now = CLOCK[0]
        S.duration = dur
        nled = len(W.ledger)
        rec["raised"], rec["client"] = None, None
        S.begin_call(n, dict(fault) if fault else {})
        r = run_call(pc, dict(call))
        fin = CLOCK[0]               # the clock advanced iff the request reached the (slow) server
        L = W.ledger[nled:]
        closed_before = set(closed_conns)
        prev_ok = last_ok
        connected_now = False
        for i, e in enumerate(L):
            if e[0] == "connect" and not (i + 1 < len(L) and L[i + 1][0] == "fault" and L[i + 1][2][0] == "connect"):
                connmap[e[1]] = len(connmap)
                connected_now = True
            if e[0] == "close" and e[1] in connmap and connmap[e[1]] not in closed_conns:
                closed_conns.add(connmap[e[1]])
                closed_order.append(connmap[e[1]])
        io_real = [e[1] for e in L if e[0] in ("sendall", "recv") and e[1] in connmap]
        io = connmap[io_real[0]] if io_real else (max(connmap.values()) if connected_now else None)
        desc.append({"gap": gap, "duration": dur, "call": call["op"], "fault": repr(fault) if fault else None, "result": r[:40], "inner_raised": rec["raised"], "conn": io})
        case = {"max_pool_size": mx, "pool_idle_timeout": idle, "ignore_exc": ign, "sequence": desc}
        # ---- monitor -------------------------------------------------------------------------------------
        if len(pool.used) != 0:
            ctx.violation("a connection is still checked out after the call returned/raised", dict(case, checked_out=len(pool.used)), tags=["used-nonzero"])
            return None
        if "Too many objects" in r or r == "exc:RuntimeError":
            ctx.violation("the pool was exhausted in sequential use", case, tags=["exhausted"])
            return None
        raised = bool(rec["raised"])
        is_quit = call["op"] == "quit"
        # a shutdown the server answers by hanging up: `Client.shutdown` swallows the "unexpected close", so the call returns normally - but the
        # connection is finished all the same (closed by the inner client, which goes back to the pool without one)
        ended = call["op"] == "shutdown" and not raised and bool(fault) and tuple(fault.get("recv_fault", (None, None)))[1:2] == ("eof",)
        # a connection is closed for a reason: the call on it failed, quit(), or it had idled out when the pool looked at it
        for c_closed in sorted(closed_conns - closed_before):
            expired = idle != 0 and prev_ok is not None and prev_ok[0] == c_closed and now - prev_ok[1] > idle
            if not (raised or is_quit or ended or expired):
                ctx.violation("a healthy connection was closed although the call on it did not fail (and it had not idled out)", dict(case, conn=c_closed), tags=["healthy-closed"])
                return None
        if io is not None and io in closed_conns - ({io} if (raised or is_quit or ended) else set()) and not (raised or is_quit or ended):
            ctx.violation("a closed connection was used again", dict(case, conn=io), tags=["failed-reused"])
            return None
        if (raised or is_quit or ended):
            for rc in {e[1] for e in L if e[0] in ("sendall", "recv", "connect") and e[1] is not None}:
                if not W.conns[rc].closed:
                    ctx.violation("a connection on which a call failed (or which the server closed in answer to shutdown) was not closed", dict(case, conn=rc), tags=["failed-not-closed"])
                    return None
            last_ok_before = last_ok
            last_ok = None
        else:
            if io is not None:
                if last_ok is not None and last_ok[0] not in closed_before and (idle == 0 or now - last_ok[1] <= idle) and io != last_ok[0]:
                    # last_ok[1] is the time the previous healthy call was *released*: a slow call is not idle time
                    ctx.violation("a healthy idle connection was not reused", dict(case, expected=last_ok[0], used=io), tags=["not-reused"])
                    return None
                if last_ok is not None and idle != 0 and now - last_ok[1] > idle and (io == last_ok[0] or last_ok[0] not in closed_conns):
                    ctx.violation("a connection idle for longer than pool_idle_timeout was reused or left open", dict(case, conn=last_ok[0]), tags=["idle-not-expired"])
                    return None
                last_ok = (io, fin)
        # ---- classification for the model -----------------------------------------------------------------
        touched = any(e[0] in ("sendall", "recv", "connect", "socket", "getaddrinfo") for e in L)
        if is_quit:
            body = ("quitFail1" if (connected_now or any(e[0] in ("sendall",) for e in L)) else "quitFail0") if raised else "quitOk"
        elif ended:
            body = "swal" + ("1" if connected_now else "0")      # the model's "the inner call ended its connection and returned normally"
        elif not raised:
            body = "ok"
        elif not touched:
            body = "rej"
        else:
            # (pc[key]: the inner get's failure is swallowed under ignore_exc and the lookup then ends in KeyError like any miss)
            swallowed = not r.startswith("exc:") or (call["op"] == "getitem" and r == "exc:KeyError")
            body = ("swal" if swallowed else "fail") + ("1" if connected_now else "0")
        model_evs.append(f"{round((now - 1000) * SCALE)}:{round((fin - 1000) * SCALE)}:{body}")
        obs.append(f"{rec['client'] if rec['client'] is not None else '-'}/{io if io is not None else '-'}")
    free = ",".join(f"{clients[id(o)][0]}/{connmap[o.sock.id] if o.sock is not None and o.sock.id in connmap else '-'}" for o in pool.free)
    open_socks = sorted(c.id for c in W.conns if not c.closed)
    pooled_socks = sorted(o.sock.id for o in pool.free if o.sock is not None)
    if open_socks != pooled_socks:
        ctx.violation("an open socket exists outside the pool (leak) or a pooled client holds a closed socket", {"sequence": desc, "open": open_socks, "pooled": pooled_socks}, tags=["leak"])
        return None
    return model_evs, obs, free, closed_order


def main(argv):
    ctx = Ctx("C09", argv)
    ctx.prepare_lean()
    import_repo()
    import pymemcache.pool as pool_mod
    pool_mod.time = FakeTimeMod
    from pymemcache.client.base import PooledClient
    rng = ctx.rng
    ctx.rule = ("sequences of 1..2(3) calls (exhaustive over a 7-op alphabet incl. quit and an illegal key x 8 fault choices x idle gaps {0, t-1, t, t+1}) and random "
                "sequences of up to 10 calls; max_pool_size in {1,2,None}; pool_idle_timeout in {0, 10}; ignore_exc on/off; non-trivial = distinct (config, sequence)")
    ctx.exhaustive = True
    lines, metas = [], []
    cfgs = [(mx, idle, ign) for mx in (1, 2, None) for idle in (0, 10) for ign in (False, True)]
    gaps = [0, 9, 10, 11]
    steps1 = [(g, c, f) for g in gaps for c in ALPHA for f in FAULTS]
    seqs = [(s,) for s in steps1]
    small = [(g, c, f) for g in (0, 10, 11) for c in ALPHA[:2] + ALPHA[5:7] for f in FAULTS[:4] + FAULTS[5:6]]
    seqs += list(itertools.product(small, repeat=2))
    if ctx.thorough:
        tiny = [(g, c, f) for g in (0, 11) for c in ALPHA[:2] + ALPHA[5:7] for f in (FAULTS[0], FAULTS[2], FAULTS[3])]
        seqs += list(itertools.product(tiny, repeat=3))
    # calls that take time: checkout at t, release at t + duration (duration may exceed the idle timeout)
    slow = [(g, c, f, d) for g in (0, 9, 10, 11) for c in ALPHA[:2] for f in (None, FAULTS[3]) for d in (5, 50)]
    seqs += [(a, b) for a in slow for b in [(g, ALPHA[1], None, 0) for g in (0, 9, 10, 11, 20)]]
    seqs += [(a, b, c) for a in slow[::3] for b in slow[1::4] for c in [(10, ALPHA[0], None, 0), (11, ALPHA[0], None, 0)]]
    for c in MORE:
        for f in FAULTS:
            seqs.append(((0, ALPHA[0], None), (5, c, f), (10, ALPHA[1], None), (11, ALPHA[1], None)))
    for _ in range(6000 if ctx.thorough else 800):
        seqs.append(tuple((rng.choice(gaps + [0, 0, 3]), rng.choice(ALPHA + MORE + OPS[:12]), rng.choice(FAULTS + [None] * 6), rng.choice([0, 0, 0, 4, 30]))
                          for _ in range(rng.randrange(3, 11))))
    # fractional idle timeouts (sub-second, and between whole seconds): gaps just below / at / above the exact value
    frac_cfgs = [(1, 0.5, False), (None, 2.5, True), (2, 2.5, False), (1, 0.25, True)]
    fgaps = [0, 0.25, 0.5, 0.75, 2.25, 2.5, 2.75, 10]
    frac = []
    for g1 in fgaps:
        for g2 in fgaps[1:]:
            frac.append(((0, ALPHA[0], None), (g1, ALPHA[1], None), (g2, ALPHA[1], None)))
    for g1 in fgaps[1:]:
        frac.append(((0, ALPHA[1], FAULTS[3]), (g1, ALPHA[1], None), (g1, ALPHA[0], None)))
    nfrac = len(frac) * len(frac_cfgs)
    # shutdown: answered by a hang-up (success), by an error line, by any fault - then the pool is used again
    SHUT, HANGUP = {"op": "shutdown", "g": False}, {"recv_fault": (0, "eof")}
    shut = []
    for f in [HANGUP, HANGUP] + FAULTS + [None]:
        for g in (0, 11):
            shut.append(((0, ALPHA[0], None), (g, SHUT, f), (0, ALPHA[1], None), (11, ALPHA[1], None)))
            shut.append(((g, SHUT, f), (0, ALPHA[0], None), (5, SHUT, HANGUP), (5, ALPHA[1], None)))
    seqs = [(fc, sq) for sq in frac for fc in frac_cfgs] + [(None, sq) for sq in seqs] + [(cf, sq) for cf in cfgs for sq in shut]
    n = 0
    for i, (fcfg, seq) in enumerate(seqs):
        cfg = fcfg or cfgs[i % len(cfgs)]
        res = run_seq(ctx, PooledClient, seq, cfg, rng)
        n += 1
        ctx.case((cfg, repr(seq)), sample={"cfg": cfg, "calls": [(it[0], it[1]["op"], repr(it[2]), (it[3] if len(it) > 3 else 0)) for it in seq]} if n in (40, 5000) else None)
        ctx.count(f"len={min(len(seq), 4)}{'+' if len(seq) >= 4 else ''}")
        if res is None:
            continue
        model_evs, obs, free, closed_order = res
        for e in model_evs:
            ctx.count("body:" + e.split(":")[1])
        mx, idle, ign = cfg
        lines.append(f"pooled cfg={mx or 2 ** 31},{round(idle * SCALE)} evs={','.join(model_evs) or '-'}")
        metas.append(({"cfg": cfg, "calls": [(it[0], it[1]["op"], repr(it[2]), (it[3] if len(it) > 3 else 0)) for it in seq], "events": model_evs},
                      f"ok obs=[{','.join(obs)}] free=[{free}] closed=[{','.join(map(str, closed_order))}] out=0"))
    # ---- connection set-up options of the pooled clients (no_delay, TLS): a fault while a new socket is being prepared - before it is connected -
    #      must not leave that socket open (the pool's accounting never sees it: only the socket ledger does) ------------------------------------
    from fakesock import mk_exc as _mk_exc
    for extra_kw, api in (({"no_delay": True}, "setsockopt"), ({"tls": True}, "wrap_socket"), ({"no_delay": True, "tls": True}, "wrap_socket"),
                          ({"no_delay": True, "tls": True}, "setsockopt")):
        for ign in (False, True):
            for mx in (1, None):
                for call in (ALPHA[0], ALPHA[1], ALPHA[2]):
                    CLOCK[0] = 1000.0
                    S = Scripted(rng)
                    kw = {"no_delay": bool(extra_kw.get("no_delay"))}
                    if extra_kw.get("tls"):
                        kw["tls_context"] = S.sm.tls_context()
                    pc = PooledClient(("h", 1), socket_module=S.sm, max_pool_size=mx, pool_idle_timeout=0, ignore_exc=ign, default_noreply=False, **kw)
                    case = {"options": extra_kw, "fault_at": api, "ignore_exc": ign, "max_pool_size": mx, "call": call["op"]}
                    ctx.case(("setup-fault", repr(extra_kw), api, ign, mx, call["op"]))
                    ctx.count("connection-setup-faults")
                    S.begin_call(0, {})
                    S.world.arm({(api, 0): _mk_exc("oserror")})
                    r1 = run_call(pc, dict(call))
                    S.world.arm({})
                    S.begin_call(1, {})
                    r2 = run_call(pc, {"op": "set", "k": "z", "v": b"1", "nr": False})
                    r3 = run_call(pc, {"op": "get", "k": "z"})
                    pooled = {id(o.sock) for o in pc.client_pool.free if o.sock is not None}
                    raw_of_pooled = {c_.id for c_ in S.world.conns if getattr(c_, "wrapped_by", None) is not None and id(S.world.conns[c_.wrapped_by]) in pooled}
                    leaked = [c_.id for c_ in S.world.conns if not c_.closed and id(c_) not in pooled and c_.id not in raw_of_pooled]
                    if leaked or len(pc.client_pool.used) != 0 or (r2, r3) != ("True", "b:31"):
                        ctx.violation("after a fault while a new socket was being set up, a socket stays open outside the pool / the pool does not recover",
                                      dict(case, first_call=r1[:40], open_sockets_outside_the_pool=leaked, checked_out=len(pc.client_pool.used), next_calls=[r2, r3]),
                                      tags=["leak", "setup-fault"])
    # ---- several idle connections (built by a call issued from inside another call - the same as two overlapping callers), then calls one at a
    #      time: whatever order the pool keeps them in, after a checkout no connection that had idled out by then may still be open --------------
    for idle in (10, 0.5):
        for ign in (False, True):
            for nested in (1, 2):
                for gaps in ((0, 9, 2, 2, 2, 2, 2, 2), (5, 5, 1, 4, 4, 4, 4), (0, 11, 4, 4, 4), (9, 9, 9, 9), (3, 3, 3, 3, 3, 3)):
                    CLOCK[0] = 1000.0
                    S = Scripted(rng)
                    pc = PooledClient(("h", 1), socket_module=S.sm, max_pool_size=None, pool_idle_timeout=idle, ignore_exc=ign, default_noreply=False)
                    pool = pc.client_pool
                    released = {}
                    real_release = pool.release

                    def release(o, *a, _rr=real_release, _rel=released, **kw):
                        r = _rr(o, *a, **kw)
                        _rel[id(o)] = CLOCK[0]
                        return r
                    pool.release = release
                    depth = [0]
                    orig_on_send = S.world.server

                    def on_send(conn, data, _o=orig_on_send, _d=depth, _pc=pc, _n=nested):
                        if _d[0] < _n:
                            _d[0] += 1
                            CLOCK[0] += 1
                            _pc.get("inner%d" % _d[0])          # a second caller while the first one is waiting for its reply
                        return _o(conn, data)
                    S.world.server = on_send
                    S.begin_call(0, {})
                    pc.set("a", b"1", noreply=False)
                    S.world.server = orig_on_send
                    case = {"pool_idle_timeout": idle, "ignore_exc": ign, "connections_built_by_overlapping_calls": nested + 1, "gaps": list(gaps)}
                    ctx.case(("multi-idle", idle, ign, nested, gaps))
                    ctx.count("several-idle-connections")
                    scale = 1.0 if idle >= 1 else 0.05
                    for n_, g in enumerate(gaps):
                        CLOCK[0] += g * scale
                        now = CLOCK[0]
                        idle_before = {id(o): released.get(id(o)) for o in pool.free}
                        objs = {id(o): o for o in pool.free}
                        S.begin_call(10 + n_, {})
                        r = run_call(pc, {"op": "get", "k": "a"})
                        stale = [oid for oid, t_rel in idle_before.items() if t_rel is not None and now - t_rel > idle and objs[oid].sock is not None and not objs[oid].sock.closed]
                        if stale:
                            ctx.violation("after a checkout a pooled connection that had been idle longer than pool_idle_timeout is still open",
                                          dict(case, call=n_, idle_for=[round(now - idle_before[x], 3) for x in stale], result=r[:30]), tags=["idle-not-expired", "several-idle"])
                            break
                        if len(pool.used) != 0:
                            ctx.violation("a connection is still checked out after the call returned/raised", dict(case, checked_out=len(pool.used)), tags=["used-nonzero"])
                            break
    if ctx.lean.build_ok:
        for (case, want), o in zip(metas, ctx.driver.batch(lines)):
            if o != want:
                ctx.disagreement("Lean pool model differs from the implementation (client / connection per call, idle set, order of closes)",
                                 dict(case, impl=want[:300], model=o[:300]), theorem="C09_closed_conn_never_used")
    # composed model PooledClient ∘ Client (Pymc/Model/PooledCall.lean): random histories with per-call scripts on the real PooledClient,
    # compared call by call (result, inner client, socket used / held, bytes left unread, order of closes)
    if ctx.lean.build_ok:
        import pooledcall_diff
        ncalls, bad = pooledcall_diff.differential(4000 if ctx.thorough else 600, rng, ctx.driver.batch)
        ctx.count("composed-model-calls", ncalls)
        for b in bad[:5]:
            ctx.disagreement("composed Lean model PooledClient∘Client differs from the real PooledClient", b, theorem="C09_pooled_run_projection")
    # composed model HashClient ∘ PooledClient ∘ Client (Pymc/Model/HashPooledCall.lean, HashPooledCallMany.lean; single- and multi-key calls):
    # every pool of a real HashClient(use_pooling=True)
    # (per registered PooledClient: idle clients with their sockets, sockets closed in order, checked-out count) after every call
    if ctx.lean.build_ok:
        import hashpooledcall_diff
        ncalls, bad = hashpooledcall_diff.differential(3000 if ctx.thorough else 400, rng, ctx.driver.batch)
        ctx.count("composed-hashpooled-model-calls", ncalls)
        for b in bad[:5]:
            ctx.disagreement("composed Lean model HashClient∘PooledClient∘Client differs from the real HashClient(use_pooling=True)", b,
                             theorem="C09_hashpooled_many_pool_conservation" if b.get("multi") else "C09_hashpooled_pool_invariants")
    # ---- overlapping callers (the statement speaks of every sequence of operations; callers of one PooledClient overlap in time): the real
    #      ObjectPool under the deterministic scheduler of C08 (harness/sched.py), with an idle timeout (5) and calls that last longer than it
    #      (`useLong`, 10).  Every schedule with at most one pre-emption (two in the thorough tier) at the line-level yield points of pool.py.
    #      Judged: a connection is closed as idled-out only if it had really been available for longer than the timeout; once every call has
    #      returned nothing is checked out. ---------------------------------------------------------------------------------------------------
    import c08 as c08_mod
    pmod = c08_mod.load_pool()
    overlap_sets = [(["useLong"], ["useOk"]), (["useLong"], ["useLong"]), (["useOk", "useLong"], ["useOk"]), (["useLong", "useOk"], ["tick", "useOk"]),
                    (["useLong"], ["useFail"]), (["useOk", "tick", "useLong"], ["useOk"]),
                    # the clock moves while a caller waits for the pool (another thread's work, a slow close under the lock)
                    (["useOk", "useOk"], ["tick"]), (["useOk", "useOk"], ["tick", "useOk"]), (["useOk", "useLong", "useOk"], ["tick"]),
                    # close() of the pooled client (ObjectPool.clear) by one caller while another one's call is in flight
                    (["useOk"], ["clear"]), (["useLong"], ["clear"]), (["useOk", "useOk"], ["clear"]), (["useOk"], ["clear", "useOk"])]
    #      Every interleaved trace, recorded WITH the clock (every advance `tick d`, every value the pool's clock returned `clock v`, every
    #      write of `_last_used` `stamp o v`), must be a run of the timed micro-step model `PoolConcT` (Pymc/Model/PoolConcTimed.lean,
    #      driver `pool.validate.timed`), in which the stamps are written inside the lock hold and the idle test is decided by the model's
    #      own clock and stamps: the model of C09_conc_expired_only_if_idle_long / C09_conc_fresh_idle_is_reused.
    tlines, tcases = [], []
    for progs in overlap_sets:
        programs = [list(p_) for p_ in progs]
        mprogs_ = [["useOk" if o_ == "useLong" else o_ for o_ in p_ if o_ != "tick"] for p_ in programs]
        for mx in (1, 2, 3):
            s0, _, _ = c08_mod.run_schedule(pmod, mx, programs, (), idle=True)
            npoints = min(s0.pos, 140)
            for plan in c08_mod.plans(range(npoints), 2, 2 if (ctx.thorough and npoints <= 70) else 1):
                sched_, viol_, _ = c08_mod.run_schedule(pmod, mx, programs, plan, idle=True, timed=True)
                ctx.case(("overlap", tuple(map(tuple, programs)), mx, plan))
                ctx.count("overlapping-callers-schedules")
                case = {"programs": programs, "max_pool_size": mx, "pool_idle_timeout": 5, "useLong_lasts": 10, "tick": 10, "plan": [list(x_) for x_ in plan],
                        "trace_tail": [f"{t_}:{e_}" for t_, e_ in sched_.trace][-30:]}
                if not any("deadlock" in v_ or "internal error" in v_ for v_ in viol_):
                    tlines.append(f"pool.validate.timed max={mx} idle=5 progs={';'.join(','.join(p_) for p_ in mprogs_)} trace={c08_mod.trace_tok(sched_.trace)}")
                    tcases.append(case)
                for v_ in sched_.early_expiry:
                    ctx.violation("overlapping callers: a healthy connection was closed and reopened instead of reused: " + v_, case, tags=["overlap", "early-expiry"])
                for v_ in getattr(sched_, "late_expiry", ()):
                    ctx.violation("overlapping callers: a connection idle for longer than pool_idle_timeout was reused instead of closed: " + v_, case, tags=["overlap", "late-expiry"])
                for v_ in viol_:
                    if "still checked out" in v_ or "deadlock" in v_ or "internal error" in v_:
                        ctx.violation("overlapping callers: " + v_, case, tags=["overlap"])
                    elif v_.endswith("was closed 0 times"):
                        ctx.violation("overlapping callers: a healthy connection was dropped by the pool without being closed - it can never be reused, the next call opens another: "
                                      + v_, case, tags=["overlap", "dropped-open"])
    if ctx.lean.build_ok and tlines:
        ctx.count("overlapping-callers-traces-validated-by-timed-model", len(tlines))
        for case, o in zip(tcases, ctx.driver.batch(tlines)):
            if not o.startswith("ok valid"):
                ctx.disagreement("overlapping callers: an interleaved trace of the real pool (with clock values and _last_used stamps) is not a run of the "
                                 "timed Lean micro-step model (stamps inside the lock hold, idle test decided by clock and stamps)",
                                 dict(case, verdict=o[:300]), theorem="C09_conc_expired_only_if_idle_long")
    # the same with the REAL PooledClient methods and REAL Client objects in the pool (identity of the pooled objects matters: the pool finds them
    # with deque.remove): a quit() or a failing call of one caller while another caller's call is in flight
    import pymemcache.client.base as base_mod_
    for progs in [(["useOk"], ["quitOk"]), (["quitOk"], ["useOk"]), (["useOk", "useOk"], ["quitOk"]), (["useFail"], ["useOk"]), (["quitFail"], ["useOk"]), (["useOk"], ["useOk"])]:
        programs = [list(p_) for p_ in progs]
        for mx in (2, 3):
            s0, _, _ = c08_mod.run_pc_schedule(pmod, base_mod_, mx, programs, ())
            npoints = min(s0.pos, 110)
            pts = list(range(0, npoints, 1 if ctx.thorough else 2))
            pl = itertools.chain(c08_mod.plans(pts, 2, 1), (((p_, 1), (q_, 0)) for p_, q_ in itertools.combinations(pts[::2], 2)) if any("quit" in o_ for p_ in programs for o_ in p_) else ())
            for plan in pl:
                sched_, viol_, leak_ = c08_mod.run_pc_schedule(pmod, base_mod_, mx, programs, plan)
                ctx.case(("overlap-real", tuple(map(tuple, programs)), mx, plan))
                ctx.count("overlapping-callers-schedules (real clients)")
                case = {"programs": programs, "max_pool_size": mx, "plan": [list(x_) for x_ in plan], "trace_tail": [f"{t_}:{e_}" for t_, e_ in sched_.trace][-30:]}
                if leak_:
                    ctx.violation(f"overlapping callers: open socket(s) {leak_} belong to no pooled client any more - a healthy connection dropped instead of reused", case,
                                  tags=["overlap", "dropped-open"])
                for v_ in viol_:
                    if "is closed" in v_ or "still checked out" in v_ or "deadlock" in v_ or "internal error" in v_ or "held by two" in v_:
                        ctx.violation("overlapping callers: " + v_, case, tags=["overlap"])
    ctx.assumptions = ["time is the patched pool clock (integer ticks); one call happens at one instant", "a connection = one successfully connected socket",
                       "overlapping callers: interleaving granularity = source lines of pool.py under the deterministic scheduler; threading.Lock is a correct mutex; "
                       "the timed micro-step model (PoolConcT) is tied to the code by validating every recorded trace (events, clock values, stamps) as one of its runs"]
    ctx.finish()
