"""dev helper: evaluate seeded changes.  usage: tools_seed.py <patch.diff> [Cxx ...]
Applies the patch in a scratch worktree of /repo (never in /repo itself), runs the given checks (default: all claimed)
against it through VERIF_REPO, prints which ones report a violation, then removes the worktree."""
import json, os, subprocess, sys, tempfile, shutil
patch = os.path.abspath(sys.argv[1])
props = sys.argv[2:] or [c["property_id"] for c in json.load(open("/verif/MANIFEST.json"))["checks"]]
wt = tempfile.mkdtemp(prefix="evalwt-", dir="/tmp")
os.rmdir(wt)
subprocess.run(["git", "-C", "/repo", "worktree", "add", "-q", "--detach", wt, "HEAD"], check=True)
try:
    r = subprocess.run(["git", "-C", wt, "apply", patch], capture_output=True, text=True)
    if r.returncode != 0:
        print("PATCH DOES NOT APPLY:", r.stderr[:300]); sys.exit(2)
    env = dict(os.environ, VERIF_REPO=wt)
    for p in props:
        r = subprocess.run(["/verif/check", p, "--tier", os.environ.get("SEED_TIER", "quick")], capture_output=True, text=True, env=env, cwd="/verif", timeout=3600)
        lines = [l for l in r.stdout.split("\n") if l.startswith(("VIOLATION", "OK ", "INTERNAL"))]
        det = [l for l in r.stdout.split("\n") if l.startswith("DETAIL")][:2]
        print(f"{p}: exit={r.returncode} {lines[-1][:160] if lines else r.stdout[-200:]}")
        for d in det:
            print("     ", d[:260])
finally:
    subprocess.run(["git", "-C", "/repo", "worktree", "remove", "--force", wt])
    # evidence/replays written during evaluation are not evidence for the real tree: restore the committed evidence
    subprocess.run(["git", "-C", "/verif", "checkout", "--", "evidence"], capture_output=True)
